"""Property registry: which explorations decide which property at which tier."""
from __future__ import annotations

import functools
import os
import sys

ROOT = os.path.dirname(os.path.abspath(__file__))
sys.path.insert(0, ROOT)

import warnings

warnings.filterwarnings("ignore", category=RuntimeWarning)
from runner import Part, kernel_extra, run_check  # noqa: E402

SCHED_FUNCS = [
    "tawazi._dag.helpers.async_execute", "tawazi._dag.helpers.sync_execute", "tawazi._dag.helpers.wait_for_finished_nodes",
    "tawazi._dag.helpers.wait_for_finished_nodes_async", "tawazi._dag.helpers.to_thread_in_executor",
    "tawazi._dag.helpers._xn_active_in_call", "tawazi._dag.helpers.copy_non_setup_xns", "tawazi._dag.helpers.BiDict",
    "tawazi._dag.helpers.get_return_values", "tawazi._dag.helpers.extend_results_with_args",
    "tawazi._dag.digraph.DiGraphEx.remove_root_node", "tawazi._dag.digraph.DiGraphEx.root_nodes",
    "tawazi._dag.digraph.DiGraphEx.from_exec_nodes", "tawazi._dag.digraph.DiGraphEx.assign_compound_priority",
    "tawazi._dag.digraph.DiGraphEx.make_subgraph", "tawazi._dag.digraph.DiGraphEx.extend_graph_with_debug_nodes",
    "tawazi.node.node.ExecNode.execute", "tawazi.node.node.LazyExecNode.__call__", "tawazi.node.uxn.UsageExecNode.result",
    "tawazi._dag.dag.DAG.__call__", "tawazi._dag.dag.DAG.run_subgraph", "tawazi._dag.dag.AsyncDAG.__call__",
    "tawazi._dag.dag.DAGExecution.__call__", "tawazi._dag.constructor.make_dag",
]

ENV_ASSUMPTIONS = [
    "environment model (sx/env.py): ThreadPoolExecutor.submit runs the callable once; a node starts when submitted and its effects become visible when the model finishes its future (any real timing lies in between)",
    "concurrent.futures.wait / asyncio.wait return a solver-chosen non-empty subset (FIRST_COMPLETED) or finish the set in a solver-chosen order (ALL_COMPLETED); empty set: wait returns at once, asyncio.wait raises ValueError",
    "asyncio.ensure_future tasks start at the caller's next suspension; run_in_executor uses the same pool model; a Context can be entered by one running callable at a time",
    "node functions are total and side-effect free; a node raises only where its fault variable is true",
    "identifiers are concrete strings n0..n(N-1); interleavings finer than scheduler-visible events are outside the claim",
    "CPython, z3, networkx are trusted",
]


def sched_parts(pid: str, tier: str):
    from harness.sched import Cfg, run_sched

    P = functools.partial
    q = tier == "quick"
    parts = []

    def mk(name, cfg, require, budget, split=7):
        from harness.sched import canonical, replay_real

        parts.append(Part(name, P(run_sched, cfg), dataclass_bounds(cfg), budget_s=budget, split_depth=split,
                          require=require, functions=SCHED_FUNCS, real_replay=P(replay_real, cfg), canonical=canonical))

    base_req = ["w_returned", "w_two_in_flight", "w_blocked_on_two", "w_parallel"]
    if pid == "C02":
        mons = ("C02",)
        mk("whole-run-N3", Cfg(N=3, resources="tma", activation=True, kwargs=False, monitors=mons), base_req + ["w_deactivated"], 600)
        mk("whole-run-N3-kwargs-async", Cfg(N=3, resources="ta", flavours="a", kwargs=True, sym_seq=False, monitors=mons), base_req, 600)
        mk("whole-run-N4-threads", Cfg(N=4, resources="t", sym_seq=False, monitors=mons), base_req, 600, 8)
        # DAG.setup(<selection>) runs the same scheduler on a sub-graph of setup nodes
        mk("setup-run-N3-selection", Cfg(N=3, resources="tm", selection=True, activation=True, sym_seq=False, setup_call=True, monitors=mons), ["w_returned", "w_setup_call", "w_parallel"], 600)
        mk("setup-run-N4-reconverging", Cfg(N=4, resources="t", selection=True, sym_seq=False, setup_call=True, fixed_shapes=SHAPES_N4, monitors=mons), ["w_returned", "w_setup_call", "w_parallel"], 600)
        from harness.dataflow import DCfg, run_dataflow

        # the values clause on the front end: what a node receives through keyword / indexed / nested-DAG plumbing
        parts.append(Part("received-values-programs", P(run_dataflow, DCfg(focus="C20", depth=2, budget=2)), {"what": "arguments received by nodes (keyword, indexed, unpacked, through nested DAGs) equal the plain evaluation",
                          "deviation budget": 2, "nesting depth": 2}, 900, 7, ["w_sub", "w_call"], FRONT_FUNCS))
        from harness.compose import CCfg, run_compose

        parts.append(Part("values-after-compose", P(run_compose, CCfg(N=3, setup=False, activation=False, features="kw")), {"N": 3, "what": "nodes of the original DAG still receive their dependencies' values (keyword / indexed uses) after a DAG was composed from it"},
                          900, 7, ["w_proper_composition"], COMPOSE_FUNCS))
        if not q:
            mk("whole-run-N4", Cfg(N=4, resources="tma", max_async=1, activation=False, monitors=mons), base_req, 1500, 9)
    elif pid == "C03":
        mons = ("C03",)
        mk("whole-run-N3-selection", Cfg(N=3, resources="tm", selection=True, activation=True, sym_seq=False, monitors=mons), base_req + ["w_deactivated"], 600)
        mk("whole-run-N3-all-resources", Cfg(N=3, resources="tma", monitors=mons), base_req, 600)
        mk("whole-run-N3-nested-activation", Cfg(N=3, resources="tm", nested=True, activation=True, sym_seq=False, monitors=mons), base_req + ["w_deactivated", "w_inner_flag"], 600)
        mk("setup-run-N3-selection", Cfg(N=3, resources="tm", selection=True, activation=True, sym_seq=False, setup_call=True, monitors=mons), ["w_returned", "w_setup_call", "w_parallel"], 600)
        from harness.graph import GCfg, run_c13
        from harness.history import HCfg, run_c11

        # "nothing else runs": disabled / unreachable debug nodes and already-set-up nodes are not entered
        parts.append(Part("debug-nodes-N3", P(run_c13, GCfg(N=3, setup=False, activation=False, combined=False, reconf=False)), {"N": 3, "what": "debug nodes run only when enabled and only with their inputs available"}, 900, 5, ["w_debug_ran"], GRAPH_FUNCS))
        from harness.graph import run_c12

        parts.append(Part("selection-closure-N2", P(run_c12, GCfg(N=2, indexed=True)), {"N": 2, "what": "exactly the documented closure runs for every (R, X, T) and alias / tag style"}, 900, 5, ["w_error_case"], GRAPH_FUNCS))
        parts.append(Part("selection-closure-N4-reconverging", P(run_c12, GCfg(N=4, fixed_shapes=SHAPES_N4)), {"N": 4, "shapes": "diamond, triangle + independent node, reconverging pair below a branch, two roots with join and top"}, 900, 6, ["w_error_case", "w_proper_subgraph", "w_all_three"], GRAPH_FUNCS))
        parts.append(Part("setup-histories-len3-N2", P(run_c11, HCfg(N=2, length=3, flavours="s")), {"N": 2, "length": 3, "what": "an already-set-up node is not entered again"}, 900, 8, ["w_reuse"], HIST_FUNCS))
        from harness.history import run_c15

        parts.append(Part("executor-histories-len3", P(run_c15, HCfg(length=3, flavours="sa", ops="exec")), {"length": "3+1", "operations": "call, executor create (whole / target), run, failing run", "what": "an executor re-run after a failed run enters every selected node (or refuses)"}, 900, 8, ["w_final_call", "w_rerun_after_failure|w_refused_after_failure"], HIST_FUNCS))
        if not q:
            mk("whole-run-N4-selection", Cfg(N=4, resources="tm", selection=True, sym_seq=False, monitors=mons), base_req, 1500, 9)
    elif pid == "C04":
        mons = ("C04",)
        mk("whole-run-N3", Cfg(N=3, resources="tma", flavours="sa", routes="dac", monitors=mons), base_req, 600)
        mk("whole-run-N3-nested", Cfg(N=3, resources="tma", max_async=1, nested=True, sym_seq=False, monitors=mons), base_req, 600)
        mk("whole-run-N3-selection", Cfg(N=3, resources="tm", selection=True, sym_seq=False, monitors=mons), base_req, 600)
        # a leaf may be a debug node (RUN_DEBUG_NODES on): debug nodes count against the limit like every pooled node
        mk("whole-run-N3-debug-leaf", Cfg(N=3, resources="t", debug_leaf=True, sym_prio=True, sym_seq=False, monitors=mons), base_req, 600)
        mk("setup-run-N3-selection", Cfg(N=3, resources="tm", selection=True, sym_seq=False, setup_call=True, monitors=mons), ["w_returned", "w_setup_call", "w_parallel"], 600)
        from harness.history import HCfg, run_c11

        # main-thread nodes run on the invoking (event-loop) thread in every operation, setup() included: real threads, real loop
        parts.append(Part("main-thread-identity-histories", P(run_c11, HCfg(N=2, length=2, flavours="sa")), {"N": 2, "length": 2, "operations": "call, setup(...), executor(...)", "flavours": "sync and async",
                          "what": "every main-thread node function runs on the thread that invoked the operation"}, 900, 8, ["w_reuse"], HIST_FUNCS))
        if not q:
            mk("whole-run-N4", Cfg(N=4, resources="tma", max_async=1, monitors=mons), base_req, 1500, 9)
    elif pid == "C05":
        mons = ("C05",)
        mk("whole-run-N3", Cfg(N=3, resources="tma", routes="dpts", monitors=mons), base_req, 600)
        mk("whole-run-N3-nested", Cfg(N=3, resources="tm", nested=True, monitors=mons), base_req, 600)
        # sub-graph executions (executor selections, DAG.setup) read the same flags
        mk("whole-run-N3-selection", Cfg(N=3, resources="t", selection=True, monitors=mons), base_req, 600)
        # a leaf may be a debug node (RUN_DEBUG_NODES on) and, like every node, sequential
        mk("whole-run-N3-debug-leaf", Cfg(N=3, resources="t", debug_leaf=True, monitors=mons), base_req, 600)
        # an earlier call before the reconfiguration: what that call cached must not outlive config_from_dict
        mk("whole-run-N3-warmup-reconf", Cfg(N=3, resources="t", routes="cs", warmup=True, monitors=mons), base_req + ["w_warmup"], 600)
        mk("setup-run-N3-selection", Cfg(N=3, resources="tm", selection=True, setup_call=True, monitors=mons), ["w_returned", "w_setup_call", "w_parallel"], 600)
        if not q:
            mk("whole-run-N4", Cfg(N=4, resources="tma", max_async=1, monitors=mons), base_req, 1500, 9)
    elif pid == "C06":
        mons = ("C06",)
        mk("whole-run-N3-prio", Cfg(N=3, resources="tm", sym_prio=True, routes="dcpt", warmup=True, monitors=mons), base_req + ["w_warmup"], 600)
        mk("whole-run-N3-prio-nested", Cfg(N=3, resources="t", sym_prio=True, sym_seq=False, nested=True, monitors=mons), base_req, 600)
        mk("whole-run-N3-prio-selection", Cfg(N=3, resources="t", sym_prio=True, sym_seq=False, selection=True, debug_leaf=True, failed_before=True, monitors=mons), base_req + ["w_debug_in_subgraph", "w_failed_before"], 600)
        mk("setup-run-N3-prio", Cfg(N=3, resources="tm", sym_prio=True, sym_seq=False, selection=True, setup_call=True, monitors=mons), ["w_returned", "w_setup_call", "w_parallel"], 600)
        mk("setup-run-N5-prio-fixed-shapes", Cfg(N=5, resources="t", sym_prio=True, sym_seq=False, setup_call=True, fixed_shapes=SHAPES_N5, monitors=mons), ["w_returned", "w_setup_call", "w_parallel"], 600, 8)
        from harness.graph import GCfg, run_c07

        # the table the scheduler reads equals the property's definition also for DAGs that are not built by @dag
        parts.append(Part("priority-table-N4-insertion-orders", P(run_c07, GCfg(N=4, relabel=False, debug=False, selection=False, reconf=False, rebuild=True)),
                          {"N": 4, "insertion orders": 24, "how": "DAG(exec_nodes=...) with permuted node table; compose()"}, 600, 5, ["w_rebuilt"], GRAPH_FUNCS))
        parts.append(Part("priority-table-N4-reconf", P(run_c07, GCfg(N=4, relabel=False, debug=False, rebuild=False, selection=False)), {"N": 4, "reconfiguration": "none, all nodes or one node", "what": "the table the scheduler reads after config_from_dict"}, 600, 5, ["w_diamond", "w_reconfigured"], GRAPH_FUNCS))
        if not q:
            mk("whole-run-N3-prio-all-resources", Cfg(N=3, resources="tma", sym_prio=True, monitors=mons), base_req, 1500)
            mk("whole-run-N4-prio", Cfg(N=4, resources="tm", sym_prio=True, sym_seq=False, monitors=mons), base_req, 1500, 9)
    elif pid == "C08":
        mons = ("C08",)
        mk("whole-run-N3", Cfg(N=3, resources="tma", sym_prio=True, routes="dact", monitors=mons), base_req, 600)
        mk("whole-run-N4-threads", Cfg(N=4, resources="t", sym_prio=True, monitors=mons), base_req, 600, 10)
        # the first node may be a setup node that this call still has to compute: it is scheduled with the others
        mk("whole-run-N3-setup-node", Cfg(N=3, resources="t", sym_prio=True, sym_seq=False, setup_first=True, monitors=mons), base_req + ["w_setup_node_in_call"], 600)
        # a descendant reached along two paths below a node that competes with two independent nodes
        mk("whole-run-N5-reconverging", Cfg(N=5, resources="t", sym_prio=True, fixed_shapes=(((), (), (), (2,), (2, 3)),), monitors=mons), base_req, 600, 8)
        # the AsyncDAG flavour: same scheduler, but the limit reaches it through another constructor
        mk("whole-run-N3-async-flavour", Cfg(N=3, resources="ta", flavours="a", routes="da", monitors=mons), base_req, 600)
        mk("whole-run-N3-composed", Cfg(N=3, resources="ta", flavours="sa", routes="k", sym_seq=False, monitors=mons), base_req, 600)
        # more async-thread nodes ready at once than the event loop's default executor has workers on a small machine
        mk("whole-run-N6-independent-async", Cfg(N=6, resources="a", max_async=6, sym_seq=False, mc_fixed=6, fixed_shapes=(((), (), (), (), (), ()),), monitors=mons), ["w_returned", "w_parallel"], 600, 8)
        if not q:
            mk("whole-run-N4", Cfg(N=4, resources="tm", sym_prio=False, monitors=mons), base_req, 1500, 9)
    elif pid == "C09":
        mons = ("C09",)
        mk("whole-run-N3-one-fault", Cfg(N=3, resources="tma", faults=1, monitors=mons), base_req + ["w_fault"], 600)
        mk("whole-run-N3-activation", Cfg(N=3, resources="ta", activation=True, monitors=mons), base_req + ["w_deactivated"], 600)
        mk("whole-run-N3-two-faults", Cfg(N=3, resources="ta", faults=2, sym_seq=False, monitors=mons), base_req + ["w_fault"], 600)
        from harness.graph import GCfg, run_c13

        # executor construction and sub-graph runs with debug nodes terminate as well (watchdog over the graph module)
        parts.append(Part("debug-selections-terminate-N3", P(run_c13, GCfg(N=3, setup=True, activation=False, combined=False, reconf=False)), {"N": 3, "what": "executor creation and execution for every selection / debug placement returns"}, 900, 5, ["w_debug_ran"], GRAPH_FUNCS))
        from harness.history import HCfg, run_c15

        # "never returns normally while a selected active node has not run": executor runs after a failed run
        parts.append(Part("executor-histories-len3", P(run_c15, HCfg(length=3, flavours="sa", ops="exec")), {"length": "3+1", "operations": "call, executor create (whole / target), run, failing run", "what": "an executor re-run after a failed run runs its complete selection or refuses"}, 900, 8, ["w_final_call", "w_rerun_after_failure|w_refused_after_failure"], HIST_FUNCS))
        from harness.history import run_c09_after_failures

        parts.append(Part("operations-after-failures-len2", P(run_c09_after_failures, HCfg(length=2, flavours="sa")), {"length": "2+2", "operations": "setup(), setup() with a failing setup node, call, failing call, executor().setup(), the same on a second DAG",
                          "what": "every operation returns or raises - nothing blocks - and a later call still returns the plain evaluation", "deadline": "120 s wall clock per history"}, 900, 6, ["w_failed_operation", "w_operations_after_failure"], HIST_FUNCS))
        if not q:
            mk("whole-run-N3-two-faults-activation", Cfg(N=3, resources="tma", faults=2, activation=True, monitors=mons), base_req + ["w_fault"], 1500)
            mk("whole-run-N4", Cfg(N=4, resources="tma", max_async=1, faults=1, monitors=mons), base_req, 1500, 9)
    elif pid == "C14":
        mons = ("C14",)
        mk("whole-run-N3-faults", Cfg(N=3, resources="tma", faults=2, flavours="sa", profiling=True, monitors=mons), base_req + ["w_fault", "w_fault_with_sibling", "w_raised_fault"], 600)
        mk("whole-run-N3-faults-nested", Cfg(N=3, resources="tm", faults=1, nested=True, sym_seq=False, monitors=mons), base_req + ["w_fault", "w_raised_fault"], 600)
        from harness.graph import GCfg, run_c12

        # "a call raises only because of a node failure or invalid arguments": every valid selection, also with an indexed
        # return value of a node that the selection leaves out
        parts.append(Part("valid-selections-do-not-raise-N2", P(run_c12, GCfg(N=2, indexed=True)), {"N": 2, "what": "executor runs for every (R, X, T) and alias form return; an unexecuted node reads as None, indexed or not"}, 600, 5, ["w_error_case"], GRAPH_FUNCS))
        from harness.faults import FCfg, run_c14_location

        parts.append(Part("failure-report-names-usage-and-line", P(run_c14_location, FCfg()), {"usages of one node function": 3, "variants": "three call sites, nested DAG, function used by an earlier DAG, profiling on, failing usage reconfigured by config_from_dict",
                          "resources": "main-thread, thread, async-thread", "failing usage": "each"}, 300, 3, ["w_location_checked"],
                          ["tawazi.node.node.ExecNode.execute", "tawazi.node.node.ExecNode.get_call_location", "tawazi.node.node.LazyExecNode.__call__", "tawazi._dag.helpers.async_execute"]))
        if not q:
            mk("whole-run-N4-faults", Cfg(N=4, resources="tma", max_async=1, faults=2, sym_seq=False, monitors=mons), base_req, 1500, 9)
    elif pid == "C17":
        mons = ("C17", "C01", "C03", "C04", "C06", "C09")
        mk("whole-run-N3-both-flavours", Cfg(N=3, resources="tma", flavours="sa", sym_prio=True, monitors=mons), base_req, 600)
        # a failing node in the AsyncDAG flavour: the loop is not held while the other nodes of the run are still in flight
        mk("whole-run-N3-async-faults", Cfg(N=3, resources="tma", flavours="a", faults=1, sym_seq=False, monitors=("C17", "C04", "C09")), base_req + ["w_fault"], 600)
        from harness.history import HCfg, run_c15

        # executors are part of "equals DAG": the same histories of executor creations, runs and failing runs in both flavours
        parts.append(Part("executor-histories-len3-both-flavours", P(run_c15, HCfg(length=3, flavours="sa", ops="exec")), {"length": "3+1", "operations": "call, executor create (whole / target), run, failing run", "flavours": "sync and async against the same reference"},
                          900, 8, ["w_final_call", "w_rerun_after_failure|w_refused_after_failure"], HIST_FUNCS))
        from harness.history import run_c17_same_history

        parts.append(Part("same-history-both-flavours-len3", P(run_c17_same_history, HCfg(length=3)), {"length": "3+1", "operations": "call (default omitted / supplied), failing call, call with too many arguments, executor create (whole / target), run, failing run, re-run, run with too many arguments, setup()",
                          "what": "step by step the DAG and the AsyncDAG built from the same function return the same value or raise the same type of exception, and enter the same nodes"}, 900, 8, ["w_same_history", "w_raised_on_both"], HIST_FUNCS))
        from harness.threads import TCfg, run_threads

        parts.append(Part("concurrent-awaits-2", P(run_threads, TCfg(mode="awaits", threads=2)), {"awaits": 2, "N": 3, "shapes": 3, "nodes": "async-thread (one optionally thread)", "max_concurrency": "1..3",
                          "choices": "which suspended coroutine resumes, which futures finish", "setup": "optional setup node, optionally set up before"}, 900, 8, ["w_interleaved"], SCHED_FUNCS))
        if not q:
            parts.append(Part("concurrent-awaits-3", P(run_threads, TCfg(mode="awaits", threads=3)), {"awaits": 3, "N": 3}, 3600, 9, ["w_interleaved"], SCHED_FUNCS))
    if pid in ("C04", "C05", "C06", "C08"):
        # what the scheduler reads (max_concurrency, is_sequential, priorities) arrives identically through all three loaders
        from harness.graph import LCfg, run_config_loaders

        parts.append(Part("configuration-loaders-N3", P(run_config_loaders, LCfg(pid)), {"N": 3, "loaders": "config_from_dict / yaml / json", "addressing": "node id, own tag, shared tag", "priorities": "{0, 2, -1}", "is_sequential": "both", "max_concurrency": "{1, 3}"},
                          600, 6, ["w_loader_dict", "w_loader_yaml", "w_loader_json"], GRAPH_FUNCS))
    if not q and pid in LARGER:
        # beyond the exhaustive shape bound: fixed larger shapes, every attribute / schedule still solver-chosen
        kw5, kw6 = LARGER[pid]
        mk("whole-run-N5-fixed-shapes", Cfg(N=5, fixed_shapes=SHAPES_N5, monitors=mons, **kw5), ["w_returned", "w_parallel"], 2400, 9)
        mk("whole-run-N6-fixed-shapes", Cfg(N=6, fixed_shapes=SHAPES_N6, monitors=mons, **kw6), ["w_returned", "w_parallel"], 2400, 9)
    return parts


LARGER = {
    "C02": (dict(resources="ta", max_async=1), dict(resources="ta", max_async=1)),
    "C03": (dict(resources="tm", selection=True, sym_seq=False), dict(resources="tm", selection=True, sym_seq=False)),
    "C04": (dict(resources="tma", max_async=1), dict(resources="tma", max_async=1)),
    "C05": (dict(resources="tm"), dict(resources="tm")),
    "C06": (dict(resources="t", sym_prio=True, sym_seq=False), dict(resources="tm", sym_prio=True, sym_seq=False)),
    "C08": (dict(resources="t", sym_prio=True), dict(resources="t", sym_prio=True)),
    "C09": (dict(resources="ta", max_async=1, faults=1), dict(resources="ta", max_async=1, faults=1)),
    "C14": (dict(resources="tm", faults=2, sym_seq=False), dict(resources="tm", faults=2, sym_seq=False)),
    "C17": (dict(resources="ta", max_async=2, flavours="sa"), dict(resources="ta", max_async=1, flavours="sa")),
}


# larger fixed shapes (indices of the dependencies of node i): reconverging triangle next to two independent nodes, diamond
# with a tail, fan-out, fan-in, two chains that join
# diamond; triangle with an independent node; root with a reconverging pair below one branch; two roots, a join and a
# top that uses the shared root again
SHAPES_N4 = (((), (0,), (0,), (1, 2)), ((), (0,), (0, 1), ()), ((), (0,), (1,), (0, 2)), ((), (), (0, 1), (0, 2)))
SHAPES_N5 = (((), (), (), (2,), (2, 3)), ((), (0,), (0,), (1, 2), (3,)), ((), (0,), (0,), (0,), (0,)), ((), (), (), (), (0, 1, 2, 3)),
             ((), (0,), (), (2,), (1, 3)))
# two diamonds in a row; a wide diamond; three roots feeding two joins
SHAPES_N6 = (((), (0,), (0,), (1, 2), (3,), (3,)), ((), (0,), (0,), (0,), (1, 2, 3), (4,)), ((), (), (), (0, 1), (1, 2), (3, 4)))

GRAPH_FUNCS = [
    "tawazi._dag.digraph.DiGraphEx.from_exec_nodes", "tawazi._dag.digraph.DiGraphEx.assign_compound_priority",
    "tawazi._dag.digraph.DiGraphEx.make_subgraph", "tawazi._dag.digraph.DiGraphEx.minimal_induced_subgraph",
    "tawazi._dag.digraph.DiGraphEx.multiple_nodes_successors", "tawazi._dag.digraph.DiGraphEx.extend_graph_with_debug_nodes",
    "tawazi._dag.digraph.DiGraphEx.include_debug_nodes", "tawazi._dag.digraph.DiGraphEx.root_nodes",
    "tawazi._dag.dag.BaseDAG.alias_to_ids", "tawazi._dag.dag.BaseDAG.get_multiple_nodes_aliases", "tawazi._dag.dag.BaseDAG.config_from_dict",
    "tawazi._dag.dag.BaseDAGExecution.__post_init__", "tawazi._dag.dag.DAGExecution.__call__", "tawazi._dag.dag.DAG.setup",
    "tawazi.node.node.ExecNode._conf_to_values", "tawazi.node.node.LazyExecNode._validate_dependencies",
    "tawazi._dag.helpers.async_execute", "tawazi._dag.helpers.get_return_values", "tawazi.node.uxn.UsageExecNode.result",
]

REAL_ENV_ASSUMPTIONS = [
    "the real scheduler runs on the real ThreadPoolExecutor / event loop; nodes use the main-thread resource so results do not depend on thread timing",
    "node functions are uninterpreted (terms f_label(args)), total and side-effect free; identifiers are concrete strings",
    "CPython, z3, networkx are trusted",
]


def graph_parts(pid: str, tier: str):
    from harness.graph import GCfg, run_c07, run_c12, run_c13
    from harness.sched import Cfg, run_sched

    P = functools.partial
    q = tier == "quick"
    parts = []
    if pid == "C07":
        parts.append(Part("table-N4-labelings", P(run_c07, GCfg(N=4, relabel=True, debug=False, selection=False, reconf=False)), {"N": 4, "labelings": 24, "priorities": "unbounded Int"}, 600, 5, ["w_diamond"], GRAPH_FUNCS))
        parts.append(Part("table-N4-reconf-selection", P(run_c07, GCfg(N=4, relabel=False, debug=False, rebuild=False)), {"N": 4, "priorities": "unbounded Int", "selection": "whole/target/exclude/root x node", "reconfiguration": "none, all nodes, one node, the shared tag, all nodes together with max_concurrency=0 (refused or not, the table follows the nodes' priorities)"}, 600, 5, ["w_diamond", "w_reconfigured", "w_subgraph", "w_reconfigured_with_invalid_limit"], GRAPH_FUNCS))
        parts.append(Part("table-N4-insertion-orders", P(run_c07, GCfg(N=4, relabel=False, debug=False, selection=False, reconf=False, rebuild=True)), {"N": 4, "insertion orders": 24, "how": "DAG(exec_nodes=...) with permuted node table; compose()"}, 600, 5, ["w_rebuilt", "w_diamond"], GRAPH_FUNCS))
        parts.append(Part("table-N3-debug", P(run_c07, GCfg(N=3, relabel=False, debug=True)), {"N": 3, "debug": "one debug leaf, RUN_DEBUG_NODES on/off"}, 600, 5, ["w_debug_in_subgraph"], GRAPH_FUNCS))
        parts.append(Part("order-mc1-N3", P(run_sched, Cfg(N=3, resources="t", sym_prio=True, sym_seq=False, routes="dc", mc_fixed=1, distinct_cp=True, monitors=("C06",))), {"N": 3, "max_concurrency": 1, "assumption": "compound priorities pairwise distinct"}, 600, 6, ["w_returned"], SCHED_FUNCS))
        from harness.graph import LCfg, run_config_loaders

        parts.append(Part("configuration-loaders-N3", P(run_config_loaders, LCfg("C07")), {"N": 3, "loaders": "config_from_dict / yaml / json", "addressing": "node id, own tag, shared tag", "priorities": "{0, 2, -1}", "is_sequential": "both", "max_concurrency": "{1, 3}"},
                          600, 6, ["w_loader_dict", "w_loader_yaml", "w_loader_json"], GRAPH_FUNCS))
        # the order seen through the other operations that schedule: a call after a warm-up call and a reconfiguration, DAG.setup()
        parts.append(Part("order-mc1-N3-warmup-reconf", P(run_sched, Cfg(N=3, resources="t", sym_prio=True, sym_seq=False, routes="cpt", warmup=True, mc_fixed=1, monitors=("C06",))), {"N": 3, "max_concurrency": 1, "history": "optional earlier call under the build-time priorities, then config_from_dict"}, 600, 6, ["w_returned", "w_warmup"], SCHED_FUNCS))
        parts.append(Part("order-mc1-N4-setup-run", P(run_sched, Cfg(N=4, resources="t", sym_prio=True, sym_seq=False, setup_call=True, selection=True, mc_fixed=1, fixed_shapes=SHAPES_N4, monitors=("C06",))), {"N": 4, "max_concurrency": 1, "operation": "DAG.setup(<selection>) over setup nodes"}, 600, 6, ["w_returned", "w_setup_call"], SCHED_FUNCS))
        if not q:
            parts.append(Part("table-N5", P(run_c07, GCfg(N=5, relabel=True, debug=False, selection=False)), {"N": 5, "labelings": 120}, 1500, 6, ["w_diamond"], GRAPH_FUNCS))
    elif pid == "C12":
        parts.append(Part("closure-N4-reconverging", P(run_c12, GCfg(N=4, fixed_shapes=SHAPES_N4)), {"N": 4, "shapes": "diamond, triangle + independent node, reconverging pair below a branch, two roots with join and top"}, 900, 6, ["w_error_case", "w_proper_subgraph", "w_all_three"], GRAPH_FUNCS))
        parts.append(Part("closure-N3", P(run_c12, GCfg(N=3, indexed=True)), {"N": 3, "R,X,T": "None, [], singletons, pairs, shared tag, unknown alias (T)", "alias forms": "reference / id / tag, tag clashing with an id"}, 600, 5, ["w_error_case", "w_proper_subgraph", "w_all_three"], GRAPH_FUNCS))
        from harness.history import HCfg, run_c15

        parts.append(Part("executor-histories-len3", P(run_c15, HCfg(length=3, flavours="s", ops="exec")), {"length": "3+1", "operations": "call, executor create (whole / target), run, failing run", "what": "returned values of an executor re-run after a failed run are the real values of the whole selection (or it refuses)"}, 900, 8, ["w_final_call", "w_rerun_after_failure|w_refused_after_failure"], HIST_FUNCS))
        if not q:
            parts.append(Part("closure-N3-setup", P(run_c12, GCfg(N=3, setup=True, indexed=True, combined=True)), {"N": 3, "setup": "first node optionally a setup node, optionally already set up"}, 1500, 5, ["w_error_case"], GRAPH_FUNCS))
    elif pid == "C13":
        parts.append(Part("debug-N3", P(run_c13, GCfg(N=3, setup=True, activation=True, combined=True, failed_before=True)), {"N": 3, "debug placement": "every subset", "modes": "call, executor(target/exclude/root x node), setup; an executor may have had an earlier failing run under the opposite RUN_DEBUG_NODES setting"}, 600, 5, ["w_invalid_rejected", "w_debug_ran", "w_debug_with_selection", "w_debug_pulled_in", "w_combined_selection"], GRAPH_FUNCS))
        parts.append(Part("debug-N4-combined", P(run_c13, GCfg(N=4, setup=False, combined=True, reconf=False)), {"N": 4, "modes": "call, single and combined (root+target, root+exclude) selections"}, 900, 6, ["w_debug_ran", "w_combined_selection"], GRAPH_FUNCS))
        parts.append(Part("debug-N3-async", P(run_c13, GCfg(N=3, setup=True, activation=False, combined=False, reconf=False, flavours="a")), {"N": 3, "flavour": "AsyncDAG", "modes": "call, executor(target/exclude/root x node), setup, setup then call"}, 600, 5, ["w_debug_ran", "w_debug_with_selection"], GRAPH_FUNCS))
        from harness.graph import run_c13_build

        parts.append(Part("build-validation-routes", P(run_c13_build, GCfg()), {"nodes": "debug / non-debug producer and consumer, one production bystander", "routes": "positional, keyword, flag, indexed, indexed flag, unpacked, operator, nested DAG argument, nested DAG flag with / without inputs, flag applied inside the nested DAG"},
                          300, 3, ["w_invalid_rejected", "w_valid_accepted"], GRAPH_FUNCS))
        if not q:
            parts.append(Part("debug-N4-activation", P(run_c13, GCfg(N=4, setup=True, activation=True, combined=True)), {"N": 4}, 2400, 7, ["w_debug_ran"], GRAPH_FUNCS))
    return parts


FRONT_FUNCS = [
    "tawazi._dag.constructor.make_dag", "tawazi._dag.constructor.get_args_and_default_args", "tawazi.node.node.LazyExecNode.__call__",
    "tawazi.node.node.make_args", "tawazi.node.node.make_kwargs", "tawazi.node.node.make_active", "tawazi.node.node.make_default_value_uxn",
    "tawazi.node.node.count_occurrences", "tawazi.node.helpers._lazy_xn_id", "tawazi.node.node.ExecNode.execute", "tawazi.node.uxn.UsageExecNode.__getitem__",
    "tawazi.node.uxn.UsageExecNode.result", "tawazi.node.functions.wrap_in_uxns", "tawazi.node.extend (operator nodes)", "tawazi._object_helpers.and_/or_/not_",
    "tawazi._dag.dag.DAG.__call__ (execution and sub-DAG description)", "tawazi._dag.dag.construct_subdag_arg_uxns", "tawazi._dag.dag.AsyncDAG.__call__",
    "tawazi._dag.dag.BaseDAG.config_from_dict/yaml/json", "tawazi._dag.helpers.async_execute", "tawazi._dag.helpers._xn_active_in_call",
    "tawazi._dag.helpers.get_return_values", "tawazi._dag.helpers.extend_results_with_args",
]


def dataflow_parts(pid: str, tier: str):
    from harness.dataflow import DCfg, run_dataflow
    from harness.sched import Cfg, run_sched

    P = functools.partial
    q = tier == "quick"
    parts = []

    def mk(name, cfg, require, budget=900, split=7):
        b = {"statements": len(cfg.stmts), "deviation budget": cfg.budget, "nesting depth": cfg.depth, "flavours": cfg.flavours, "config routes": cfg.config,
             "family": "all programs that differ from the base program in at most <budget> holes (function, argument source/form, second argument, keyword passing, "
                       "activation flag form, operator, nested DAG signature / shape / supplied arguments, return shape, defaulted DAG parameter supplied or not, flavour, configuration)",
             "inputs": "symbolic values (uninterpreted sort), node functions uninterpreted"}
        parts.append(Part(name, P(run_dataflow, cfg), b, budget_s=budget, split_depth=split, require=require, functions=FRONT_FUNCS))

    if pid == "C01":
        mk("programs-2stmts", DCfg(focus="C01", budget=3, flavours="sa", config=True), ["w_call", "w_op", "w_sub", "w_flag", "w_deactivated"], 900, 9)
        parts.append(Part("schedule-independence-N3", P(run_sched, Cfg(N=3, resources="tma", max_async=1 if q else 99, activation=True, kwargs=True, routes="d" if q else "dc", sym_prio=not q, monitors=("C01",))),
                          {"N": 3, "what": "returned tuple equals the plain evaluation on every schedule / configuration"}, 900, 7, ["w_returned", "w_parallel"], SCHED_FUNCS))
        if not q:
            mk("programs-3stmts", DCfg(stmts=("s", "s", "s"), focus="C01", budget=3, flavours="sa", config=True), ["w_call", "w_op", "w_sub"], 3600)
            mk("programs-2stmts-b4", DCfg(focus="C01", budget=4, flavours="s"), ["w_call", "w_op", "w_sub"], 3600)
    elif pid == "C10":
        mk("flag-forms", DCfg(focus="C10", budget=3), ["w_flag", "w_flag_indexed", "w_flag_on_nested", "w_deactivated"])
        from harness.compose import CCfg, run_compose

        parts.append(Part("flags-in-composed-dags", P(run_compose, CCfg(N=3, setup=False, features="act")), {"N": 3, "what": "activation edges (plain and indexed) whose flag node is / is not an input of compose()"},
                          900, 7, ["w_flag_from_input"], COMPOSE_FUNCS))
        from harness.sched import canonical, replay_real

        # a flagged node inside a sub-graph execution whose flag node lies outside the selection (it then reads as None: not run)
        cfg_sel = Cfg(N=3, resources="tm", selection=True, activation=True, sym_seq=False, monitors=("C03", "C01"))
        parts.append(Part("flags-under-selection-N3", P(run_sched, cfg_sel), dataclass_bounds(cfg_sel), budget_s=600, split_depth=7, require=["w_returned", "w_deactivated"],
                          functions=SCHED_FUNCS, real_replay=P(replay_real, cfg_sel), canonical=canonical))
        if not q:
            mk("flag-forms-3stmts", DCfg(stmts=("s", "s", "s"), focus="C10", budget=3, depth=2), ["w_flag", "w_flag_on_nested"], 1800)
            mk("flag-forms-b4", DCfg(focus="C10", budget=4), ["w_flag", "w_flag_on_nested"], 1800)
    elif pid == "C20":
        mk("nesting-depth2", DCfg(focus="C20", depth=2, budget=2), ["w_sub", "w_flag_on_nested"])
        mk("nesting-depth3", DCfg(focus="C20", depth=3, budget=1), ["w_sub"])
        from harness.dataflow import NCfg, run_nested_derived

        parts.append(Part("nesting-derived-dags", P(run_nested_derived, NCfg()), {"inner DAG": "composed from a 5-node base DAG (once / twice), reconfigured, deep-copied, called before", "use": "forwarded whole, indexed, flagged call",
                          "inputs": "symbolic values"}, 300, 4, ["w_derived_composed", "w_derived_called-before"], FRONT_FUNCS))
        if not q:
            mk("nesting-depth2-b3", DCfg(focus="C20", depth=2, budget=3), ["w_sub"], 1800)
            mk("nesting-depth3-b2", DCfg(focus="C20", depth=3, budget=2), ["w_sub"], 1800)
    return parts


COMPOSE_FUNCS = ["tawazi._dag.dag.BaseDAG.compose", "tawazi._dag.dag.BaseDAG.alias_to_ids", "tawazi._dag.dag.BaseDAG._get_single_xn_by_alias",
                 "tawazi._dag.digraph.DiGraphEx.ancestors_of_iter", "tawazi.node.node.ArgExecNode", "tawazi.node.node.make_axn_id",
                 "tawazi._dag.dag.DAG.__call__", "tawazi._dag.helpers.async_execute", "tawazi._dag.helpers.extend_results_with_args"]


def compose_parts(pid: str, tier: str):
    from harness.compose import CCfg, run_compose

    P = functools.partial
    q = tier == "quick"
    b = {"N": 3, "inputs": "Ellipsis, [], singletons, pairs, the original DAG argument, a shared tag", "outputs": "single alias, [], singleton list, pairs",
         "alias forms": "reference / id / tag", "uses": "indexed dependency, keyword dependency, one activation edge, constant / required / defaulted DAG argument"}
    parts = [Part("compose-N3", P(run_compose, CCfg(N=3, setup=True)), b, 900, 7, ["w_error_case", "w_proper_composition", "w_flag_from_input"], COMPOSE_FUNCS)]
    if not q:
        parts.append(Part("compose-N3-setup-async", P(run_compose, CCfg(N=3, setup=True, flavours="sa")), dict(b, setup="first node optionally a setup node", flavours="sync and async"), 1800, 7, ["w_error_case"], COMPOSE_FUNCS))
        parts.append(Part("compose-N4", P(run_compose, CCfg(N=4, indexed=False, kwargs=False)), dict(b, N=4), 2400, 8, ["w_error_case"], COMPOSE_FUNCS))
    return parts


HIST_FUNCS = ["tawazi._dag.dag.DAG.__call__", "tawazi._dag.dag.DAG.setup", "tawazi._dag.dag.DAG.run_subgraph", "tawazi._dag.dag.AsyncDAG.setup", "tawazi._dag.dag.AsyncDAG.run_subgraph",
              "tawazi._dag.dag.BaseDAG._pre_setup", "tawazi._dag.dag.BaseDAGExecution.__post_init__", "tawazi._dag.dag.BaseDAGExecution._pre_call", "tawazi._dag.dag.BaseDAGExecution._post_call",
              "tawazi._dag.dag.BaseDAGExecution._cache_results", "tawazi._dag.dag.DAGExecution.__call__", "tawazi._dag.dag.BaseDAG.compose", "tawazi._dag.dag.BaseDAG.config_from_dict",
              "tawazi._dag.helpers.async_execute", "tawazi._dag.helpers.copy_non_setup_xns", "tawazi._dag.helpers.extend_results_with_args", "tawazi._dag.helpers.get_return_values",
              "tawazi.node.node.LazyExecNode._validate_dependencies", "tawazi._dag.digraph.DiGraphEx.from_exec_nodes", "tawazi._dag.digraph.DiGraphEx.make_subgraph"]


def history_parts(pid: str, tier: str):
    from harness.history import HCfg, run_c11, run_c15, run_c18

    P = functools.partial
    q = tier == "quick"
    parts = []
    if pid == "C11":
        b = {"N": 3, "setup placement": "every subset (invalid ones must be rejected)", "operations": "call, setup(), executor(), executor(target=[i]), setup(target=[i]), deepcopy-then-continue, config_from_dict naming every node"}
        parts.append(Part("build-validation", P(run_c11, HCfg(N=3, length=0, flavours="s")), dict(b, what="setup placement x root kinds x leading constants: invalid placements rejected at build"), 900, 8, ["w_invalid_rejected"], HIST_FUNCS))
        parts.append(Part("histories-len2", P(run_c11, HCfg(N=3, length=2, flavours="s")), dict(b, length=2), 900, 8, ["w_reuse", "w_deepcopy", "w_setup_root_target"], HIST_FUNCS))
        parts.append(Part("histories-len2-N2-async", P(run_c11, HCfg(N=2, length=2, flavours="a")), dict(b, N=2, length=2, flavour="async"), 900, 8, ["w_reuse"], HIST_FUNCS))
        parts.append(Part("histories-len3-N2", P(run_c11, HCfg(N=2, length=3, flavours="s")), dict(b, N=2, length=3), 900, 8, ["w_reuse", "w_config_after_setup"], HIST_FUNCS))
        from harness.history import run_c18

        parts.append(Part("cache-restarts-N2", P(run_c18, HCfg(N=2, length=3, flavours="s")), {"N": 2, "what": "executions restarted from a cache (also one written by another instance) do not replace the value a setup node produced the first time"}, 900, 8, ["w_foreign_cache"], HIST_FUNCS))
        if not q:
            parts.append(Part("histories-len3", P(run_c11, HCfg(N=3, length=3, flavours="s")), dict(b, length=3), 3600, 9, ["w_reuse", "w_deepcopy"], HIST_FUNCS))
            parts.append(Part("histories-len4-N2", P(run_c11, HCfg(N=2, length=4, flavours="s", deepcopy=False)), dict(b, N=2, length=4, operations="as above without deepcopy"), 3600, 9, ["w_reuse"], HIST_FUNCS))
    elif pid == "C15":
        b = {"programs": 3, "operations": "call (default omitted / supplied), failing call, executor create (whole / target), run, failing run, compose + call of the composed DAG, config_from_dict, setup() / setup(target_nodes=[]) / setup(target_nodes=[n]) on a DAG without setup nodes, an executor whose cache file cannot be written (fault at the cache write)",
             "final operation": "a call with fresh symbolic arguments"}
        parts.append(Part("histories-len3", P(run_c15, HCfg(length=3, flavours="s")), dict(b, length="3+1"), 900, 8, ["w_final_call", "w_failed_call", "w_refused_rerun", "w_rerun_after_failure|w_refused_after_failure", "w_compose", "w_config", "w_setup_op", "w_cache_write_failed"], HIST_FUNCS))
        parts.append(Part("histories-len3-async", P(run_c15, HCfg(length=3, flavours="a", ops="noargsetup")), dict(b, length="3+1", flavour="async", operations_left_out="setup(target_nodes=[]) and setup(target_nodes=[n])"), 900, 8, ["w_final_call", "w_rerun_after_failure|w_refused_after_failure"], HIST_FUNCS))
        from harness.history import run_c18

        parts.append(Part("cache-executors-N2", P(run_c18, HCfg(N=2, length=3, flavours="s")), {"N": 2, "what": "an executor started from a cache refuses a second run; a restart from another instance's cache does not change what later calls of this instance see"}, 900, 8, ["w_deps_of_restart", "w_foreign_cache"], HIST_FUNCS))
        from harness.history import run_c09_after_failures

        parts.append(Part("operations-after-failures-len2", P(run_c09_after_failures, HCfg(length=2, flavours="sa", prop="C15")), {"length": "2+2", "operations": "setup(), setup() with a failing setup node, call, failing call, call / executor run with too many arguments, executor().setup(), the same on a second DAG",
                          "what": "a later call returns the plain evaluation whatever failed before"}, 900, 6, ["w_failed_operation", "w_operations_after_failure"], HIST_FUNCS))
        from harness.history import run_c15_setup_inputs

        parts.append(Part("arguments-cannot-reach-setup-nodes", P(run_c15_setup_inputs, HCfg(flavours="sa")), {"routes": "positional, keyword, flag, indexed flag, defaulted-argument flag, flag computed by a node from the argument",
                          "what": "refused at build time, or two calls with different arguments behave like fresh DAGs"}, 300, 3, ["w_refused"], HIST_FUNCS))
        if not q:
            parts.append(Part("histories-len4", P(run_c15, HCfg(length=4, flavours="s", ops="noargsetup")), dict(b, length="4+1", operations_left_out="setup(target_nodes=[]) and setup(target_nodes=[n])"), 3600, 9, ["w_final_call"], HIST_FUNCS))
    elif pid == "C18":
        b = {"N": 3, "caching selection": "whole, target=[i], cache_deps_of=[i]", "restart": "same selection or whole DAG; on the same instance or on a pristine deep copy", "setup": "first node optionally a setup node"}
        parts.append(Part("cache-restart", P(run_c18, HCfg(N=3, length=3, flavours="sa")), dict(b, flavours="sync and async", extra="restart from a cache written by another instance"), 900, 8, ["w_deps_of_restart", "w_deps_of_two", "w_foreign_cache", "w_chained_caches"], HIST_FUNCS))
        parts.append(Part("cache-restart-two-rounds-N2", P(run_c18, HCfg(N=2, length=4)), dict(b, N=2, rounds="two caching runs on the same file, each followed by a restart"), 900, 8, ["w_second_round"], HIST_FUNCS))
        if not q:
            parts.append(Part("cache-restart-two-rounds", P(run_c18, HCfg(N=3, length=4)), dict(b, rounds=2), 2400, 9, ["w_second_round"], HIST_FUNCS))
    return parts


THREAD_FUNCS = ["tawazi._dag.constructor.threadsafe_make_dag", "tawazi._dag.constructor.wrap_make_dag", "tawazi.node.node.is_describing", "tawazi.node.node.LazyExecNode.__call__",
                "tawazi._dag.dag.DAG.__call__", "tawazi._dag.dag.DAG.run_subgraph", "tawazi._dag.dag.AsyncDAG.__call__", "tawazi._dag.dag.AsyncDAG.run_subgraph", "tawazi._dag.dag.AsyncDAG.setup",
                "tawazi._dag.helpers.async_execute", "tawazi._dag.helpers.extend_results_with_args", "tawazi._dag.helpers.copy_non_setup_xns"]


def thread_parts(pid: str, tier: str):
    from harness.threads import TCfg, run_threads

    P = functools.partial
    q = tier == "quick"
    parts = []
    if pid == "C16":
        parts.append(Part("two-threads-one-dag", P(run_threads, TCfg(mode="calls", threads=2)), {"threads": 2, "N": 3, "shapes": 3, "granularity": "every alternation of the two threads at node entries", "setup": "optional setup node, run before"},
                          900, 6, ["w_interleaved"], THREAD_FUNCS))
        parts.append(Part("build-vs-other-thread", P(run_threads, TCfg(mode="build")), {"pause points": 4, "operations of the other thread": "call a DAG (default supplied / omitted), call a decorated function (ignore / error behaviour), build another DAG",
                           "variants": "the paused build embeds a sub-DAG; the other thread had a failed description before; one build pauses for 6.5 s"},
                          900, 6, ["w_build", "w_call_dag", "w_call_xn_ignore", "w_long_pause"], THREAD_FUNCS))
        if not q:
            parts.append(Part("three-threads-one-dag", P(run_threads, TCfg(mode="calls", threads=3, N=3)), {"threads": 3, "N": 3}, 2400, 8, ["w_interleaved"], THREAD_FUNCS))
    return parts


def dataclass_bounds(cfg):
    import dataclasses

    d = dataclasses.asdict(cfg)
    d["symbolic"] = "priorities: unbounded Int" * bool(cfg.sym_prio) + " max_concurrency: unbounded Int >= 1; node values: uninterpreted sort; sequential flags: Bool" 
    d["outside"] = "DAGs with more than N nodes; interleavings finer than scheduler-visible events"
    return d


# CrossHair kernels (engine CH) attached to checks: kernel-name prefixes
KERNELS = {
    "C01": ["k2", "k3", "k4"], "C02": ["k2"], "C03": ["k5", "k6_reuse"], "C07": ["k7"], "C12": ["k4", "k2_missing"],
    "C15": ["k3", "k5_strictdict"], "C20": ["k6_ordinal", "k3_arguments"],
}

LEVEL = {
    "C02": "model_checking", "C03": "model_checking", "C04": "model_checking", "C05": "model_checking",
    "C06": "model_checking", "C08": "model_checking", "C09": "model_checking", "C14": "fault_enumeration",
    "C17": "model_checking",
}

RULE = ("paths of the symbolic execution of the real code: every upper-triangular DAG shape x resource assignment x selection x "
        "completion subset/order is a solver-chosen decision, integers/flags/values stay symbolic; a case is counted distinct by "
        "the abstract scheduler state (started sequence, observed set, blocked-on set, shape, resources)")


def all_parts(pid, tier):
    if pid in ("C02", "C03", "C04", "C05", "C06", "C08", "C09", "C14", "C17"):
        return sched_parts(pid, tier)
    if pid in ("C07", "C12", "C13"):
        return graph_parts(pid, tier)
    if pid in ("C01", "C10", "C20"):
        return dataflow_parts(pid, tier)
    if pid == "C19":
        return compose_parts(pid, tier)
    if pid in ("C11", "C15", "C18"):
        return history_parts(pid, tier)
    if pid == "C16":
        return thread_parts(pid, tier)
    return []


def twin_part(pid):
    """Vacuity guard: a small instance of the property's main harness whose final check(False) must be violated."""
    import dataclasses as dc

    P = functools.partial
    parts = all_parts(pid, "quick")
    base = parts[0]
    fn = base.harness
    cfg = fn.args[0]
    small = {}
    for f, v in (("N", 2), ("length", 1), ("budget", 1)):
        if any(x.name == f for x in dc.fields(cfg)):
            small[f] = min(getattr(cfg, f), v) if f != "length" else v
    tw = dc.replace(cfg, twin=True, **small)
    return Part("reachability-twin", P(fn.func, tw), {"what": "same harness, small bound, final check(False) must be reported as violated"}, 600, 6, expect_violation=True)


def main(argv):
    if len(argv) == 3 and argv[1] == "--replay":
        from runner import replay_file

        return replay_file(argv[0], all_parts(argv[0], "thorough") + all_parts(argv[0], "quick"), argv[2])
    if len(argv) != 2 or argv[1] not in ("quick", "thorough"):
        print("usage: check <ID> <quick|thorough> | check <ID> --replay <file>")
        return 2
    pid, tier = argv
    os.environ["VERIF_TIER"] = tier
    if pid in ("C02", "C03", "C04", "C05", "C06", "C08", "C09", "C14", "C17"):
        parts = sched_parts(pid, tier)
        return run_check(pid, tier, LEVEL[pid], parts + [twin_part(pid)], ENV_ASSUMPTIONS, RULE, extra=KERNELS.get(pid) and kernel_extra(pid, KERNELS[pid]))
    if pid in ("C07", "C12", "C13"):
        rule = ("paths of the symbolic execution of the real graph algebra on programs built through the public API: shape x labeling x selection x alias form x "
                "debug placement are solver-chosen decisions, priorities and node values symbolic; distinct = distinct (shape, labeling, selection, placement)")
        return run_check(pid, tier, "model_checking", graph_parts(pid, tier) + [twin_part(pid)], REAL_ENV_ASSUMPTIONS, rule, extra=KERNELS.get(pid) and kernel_extra(pid, KERNELS[pid]))
    if pid in ("C01", "C10", "C20"):
        rule = ("generated describing functions: every program within the deviation budget of the base program is built with @xn/@dag and called with symbolic inputs; "
                "the same describing code evaluated with the plain callables is the reference; z3 proves result equality for all inputs and node functions; "
                "distinct = distinct program spec")
        return run_check(pid, tier, "translation_validation", dataflow_parts(pid, tier) + [twin_part(pid)], REAL_ENV_ASSUMPTIONS + ENV_ASSUMPTIONS[:3], rule, extra=KERNELS.get(pid) and kernel_extra(pid, KERNELS[pid]))
    if pid == "C19":
        rule = ("programs x (inputs, outputs) x alias form, all solver-chosen; composed DAG called with fresh symbolic values; reference = original program with the input "
                "nodes' values substituted; distinct = distinct (program, inputs, outputs, alias form)")
        return run_check(pid, tier, "translation_validation", compose_parts(pid, tier) + [twin_part(pid)], REAL_ENV_ASSUMPTIONS, rule)
    if pid in ("C11", "C15", "C18"):
        rule = ("operation histories on one DAG instance: every sequence of operations up to the stated length x program / setup placement / selection is a solver-chosen path; "
                "call arguments are fresh symbolic values and node values are terms, so result equalities are decided by z3; distinct = distinct (program, history)")
        return run_check(pid, tier, "model_checking", history_parts(pid, tier) + [twin_part(pid)], REAL_ENV_ASSUMPTIONS, rule, extra=KERNELS.get(pid) and kernel_extra(pid, KERNELS[pid]))
    if pid == "C16":
        rule = ("real threads under a cooperative controller: the order in which threads pass node-entry gates / the pause point of a build and the other thread's operation are solver-chosen; "
                "results are terms over per-thread symbolic arguments; distinct = distinct (shape, alternation) resp. (pause point, operation)")
        return run_check(pid, tier, "model_checking", thread_parts(pid, tier) + [twin_part(pid)], REAL_ENV_ASSUMPTIONS + ["threads interleave only at node entries and at the chosen pause point of a describing function; finer interleavings are outside the claim"], rule)
    print("HARNESS-ERROR unknown property %s" % pid)
    return 2


if __name__ == "__main__":
    sys.exit(main(sys.argv[1:]))
