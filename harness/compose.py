"""C19: compose(inputs, outputs) computes the outputs from supplied intermediate values.

Programs over N nodes (edges, indexed uses, keyword passing, one activation edge, constants vs. DAG
input) are built through the public API; the input / output node sets, their alias form and Ellipsis
are solver-chosen.  The composed DAG is called with fresh symbolic values; z3 proves its result equal
to the reference evaluation of the original program with the input nodes' values substituted, the
entered set must be exactly what the outputs need, error cases must raise ValueError, and the
original DAG must behave and look the same before and after.
"""
from __future__ import annotations

import dataclasses
import warnings
from typing import Any, Dict, List, Optional, Set, Tuple

from harness.common import watchdog, Counter, closure, term_fn
from sx.engine import Ctx, SXControl, SymVal, lift, vapp, veq


@dataclasses.dataclass(frozen=True)
class CCfg:
    N: int = 3
    activation: bool = True
    indexed: bool = True
    kwargs: bool = True
    setup: bool = False
    flavours: str = "s"
    twin: bool = False  # reachability twin: the harness ends with check(False), which must come back violated
    features: str = "all"  # "act": only programs with an activation edge (used by the C10 check)


def _snapshot(d: Any) -> Any:
    out = {}
    for i, x in d.exec_nodes.items():
        out[i] = (type(x).__name__, [(u.id, tuple(u.key)) for u in x.args], {k: (u.id, tuple(u.key)) for k, u in x.kwargs.items()},
                  None if x.active is None else (x.active.id, tuple(x.active.key)), x.priority if isinstance(x.priority, int) else None,
                  x.tag, x.setup, x.debug)
    return out, sorted(d.results.keys()), sorted(d.graph_ids.nodes), sorted(d.graph_ids.edges)


@watchdog(lambda cfg: "C19")
def run_compose(cfg: CCfg, c: Ctx) -> Any:
    from tawazi import Resource, dag, xn

    warnings.simplefilter("ignore")
    N = cfg.N
    labels = ["n%d" % i for i in range(N)]
    deps: Dict[str, List[str]] = {l: [] for l in labels}
    for i in range(N):
        for j in range(i):
            if c.choose(2, "edge"):
                deps[labels[i]].append(labels[j])
    # roots: DAG input x (required) / DAG input y (defaulted) / constant, by pattern
    roots = [l for l in labels if not deps[l]]
    pattern = ("all-x", "all-const", "first-y", "first-x-rest-const")[c.choose(4, "src")]
    # the default of the defaulted DAG parameter: an ordinary value or a falsy one (a default is a default whatever its truth value)
    YDEF: Any = (11, 0, None)[c.choose(3, "ydefault")] if pattern == "first-y" else 11
    src: Dict[str, Any] = {l: None for l in labels}
    for k_, l in enumerate(roots):
        src[l] = {"all-x": "x", "all-const": "const", "first-y": "y" if k_ == 0 else "x", "first-x-rest-const": "x" if k_ == 0 else "const"}[pattern]
    # one optional feature per program: an indexed use, a keyword use, an activation edge, or a non-default alias form
    feats: List[Any] = [None]
    if cfg.indexed:
        feats += [("idx", d, l) for l in labels for d in deps[l]]
        feats += [("dbl", d, l) for l in labels for d in deps[l]]  # two parts of one dependency, both positional: n(v[0], v[1])
    if cfg.kwargs:
        feats += [("kw", l) for l in labels if deps[l]]
    if cfg.activation:
        feats += [("act", labels[j], labels[i]) for i in range(N) for j in range(i)]
    feats += [("alias", "id"), ("alias", "tag"), ("alias", "id-substring-tags"), ("alias", "tag-substring-tags"), ("alias", "id-clash")]
    if cfg.activation and cfg.indexed:
        feats += [("actidx", labels[j], labels[i]) for i in range(N) for j in range(i)]
    if cfg.features == "act":
        feats = [f for f in feats if f and f[0] in ("act", "actidx")]
        c.assume(bool(feats))
    elif cfg.features == "kw":
        feats = [f for f in feats if f and f[0] in ("kw", "idx", "dbl")]
        c.assume(bool(feats))
    feat = feats[c.choose(len(feats), "feature")]
    idx_use: Optional[Tuple[str, str]] = (feat[1], feat[2]) if feat and feat[0] == "idx" else None
    dbl_use: Optional[Tuple[str, str]] = (feat[1], feat[2]) if feat and feat[0] == "dbl" else None
    kw_use = {l: bool(feat and feat[0] == "kw" and feat[1] == l) for l in labels}
    act: Dict[str, str] = {feat[2]: feat[1]} if feat and feat[0] in ("act", "actidx") else {}
    act_indexed = bool(feat and feat[0] == "actidx")  # twz_active=flag[0]
    form = feat[1].split("-")[0] if feat and feat[0] == "alias" else "ref"
    substring_tags = bool(feat and feat[0] == "alias" and feat[1].endswith("substring-tags"))
    alldeps = {l: list(dict.fromkeys(deps[l] + ([act[l]] if l in act else []))) for l in labels}
    desc, anc = closure(labels, alldeps)
    tags: Dict[str, Any] = {l: ("t%d" % i, "g") if i < 2 else ("t%d" % i,) for i, l in enumerate(labels)}
    id_clash = bool(feat and feat[0] == "alias" and feat[1] == "id-clash")
    if id_clash:
        # the last node is also tagged with the id of the first one: a string alias means the tag first (documented)
        tags[labels[-1]] = tags[labels[-1]] + (labels[0],)
    if substring_tags:
        # single-string tags; the last node's tag contains the id of the first node and the tag of the second one
        tags = {l: ("t%d" % i if i < N - 1 else "x%s_t1y" % labels[0]) for i, l in enumerate(labels)}
    setup0 = bool(cfg.setup and src[labels[0]] == "const" and labels[0] not in act and c.choose(2, "setup"))
    cnt = Counter()
    flavour = cfg.flavours[c.choose(len(cfg.flavours), "flavour")] if len(cfg.flavours) > 1 else cfg.flavours
    in_opts: List[Any] = [..., []] + [[l] for l in labels] + [[labels[i], labels[j]] for i in range(N) for j in range(i + 1, N)] + [["@x"], ["@g"]]
    inputs = in_opts[c.choose(len(in_opts), "inputs")]
    out_opts: List[Any] = [l for l in labels] + [[]] + [[l] for l in labels[-1:]] + [[labels[i], labels[j]] for i in range(N) for j in range(i + 1, N)]
    outputs = out_opts[c.choose(len(out_opts), "outputs")]
    out_list = [outputs] if isinstance(outputs, str) else list(outputs)
    # a node that is both an input and an output: the test-suite expects a refusal in one case and the property
    # does not say what the value should be - outside the oracle
    if inputs is not ...:
        c.assume(not (set(out_list) & set(inputs)))
    # indexing the None of a deactivated node fails in plain Python as well: not generated
    c.assume(idx_use is None or idx_use[0] not in act)
    c.heavy()
    xns = {l: xn(term_fn(l, cnt), tag=tags[l], setup=(setup0 and l == labels[0]), resource=Resource.main_thread) for l in labels}

    def call_shape(l: str, x: Any, y: Any, r: Dict[str, Any]) -> Tuple[List[Any], Dict[str, Any]]:
        args: List[Any] = []
        if src[l] == "x":
            args.append(x)
        elif src[l] == "y":
            args.append(y)
        elif src[l] == "const":
            args.append(7)
        for d in deps[l]:
            v = r[d]
            if idx_use == (d, l):
                v = v[0]
            if dbl_use == (d, l):
                args.append(v[0])
                v = v[1]
            args.append(v)
        kw: Dict[str, Any] = {}
        if kw_use[l]:
            kw["k"] = args.pop()
        return args, kw

    def pipe(x, y=YDEF):  # type: ignore[no-untyped-def]
        r: Dict[str, Any] = {}
        for l in labels:
            args, kw = call_shape(l, x, y, r)
            if l in act:
                kw["twz_active"] = r[act[l]][0] if act_indexed else r[act[l]]
            r[l] = xns[l](*args, **kw)
        return tuple(r[l] for l in labels)

    pipe.__qualname__ = pipe.__name__ = "pipe"
    d = dag(pipe, is_async=(flavour == "a"))

    def run(dd: Any, *a: Any) -> Any:
        if type(dd).__name__ == "AsyncDAG":
            import asyncio

            return asyncio.run(dd(*a))
        return dd(*a)

    # ---- reference evaluation of the original with optional substitution
    def evaluate(x: Any, y: Any, subst: Dict[str, Any], only: Optional[Set[str]] = None) -> Dict[str, Any]:
        val: Dict[str, Any] = {}
        for l in labels:
            if l in subst:
                val[l] = subst[l]
                continue
            if only is not None and l not in only:
                val[l] = None
                continue
            active = True
            if l in act:
                f = val[act[l]]
                if act_indexed and f is not None:
                    f = f[0]
                active = bool(f) if f is not None else False
            if not active:
                val[l] = None
                continue
            args, kw = call_shape(l, x, y, val)
            parts = [lift(a) for a in args]
            for k in sorted(kw):
                parts += [lift("kw:" + k), lift(kw[k])]
            val[l] = SymVal(vapp("f_" + l, parts))
        return val

    X = c.val("x")
    before = run(d, X)
    snap = _snapshot(d)
    ref_orig = evaluate(X, YDEF, {})
    c.check(veq(before, tuple(ref_orig[l] for l in labels)), "original DAG differs from its plain evaluation (before compose)", prop="C19")

    def alias(m: str) -> Any:
        if id_clash and m == labels[-1] and clash_alias[0]:
            return labels[0]  # the string that is both the first node's id and the last node's tag
        if m == "@x":
            return "pipe>!>x"
        if m == "@g":
            return "g"
        return xns[m] if form == "ref" else (m if form == "id" else (tags[m] if substring_tags else "t%d" % labels.index(m)))

    # ---- documented alias resolution: a string means a tag first, then an id
    def den(m: str) -> str:
        return labels[-1] if (id_clash and m == labels[0]) else m

    clash_alias = [False]
    if id_clash:
        members = (list(inputs) if inputs is not ... else []) + out_list
        c.assume(not (labels[0] in members and labels[-1] in members))  # (both would denote the same node)
        clash_alias[0] = labels[0] in members
        if inputs is not ...:
            inputs = [den(m) for m in inputs]
        outputs = den(outputs) if isinstance(outputs, str) else [den(m) for m in outputs]
        out_list = [outputs] if isinstance(outputs, str) else list(outputs)

    # ---- spec: errors
    expect_error = False
    in_nodes: List[str] = []  # input ids in order ('@x' = the original DAG argument x)
    if inputs is ...:
        in_nodes = ["@x", "@y"]
    else:
        for m in inputs:
            if m == "@g":
                expect_error = True  # ambiguous alias: the tag is carried by two nodes (or, with single-string tags, by none)
            else:
                in_nodes.append(m)
    node_inputs = [m for m in in_nodes if not m.startswith("@")]
    if any(a in anc[b] for a in node_inputs for b in node_inputs):
        expect_error = True  # an input depends on another input
    if "@x" in in_nodes and node_inputs and any(src[l] == "x" and (l in node_inputs or (set(node_inputs) & desc[l])) for l in labels):
        expect_error = True  # the DAG argument is an ancestor of another input
    # what the outputs need
    needed: Set[str] = set()
    missing = False
    todo = [o for o in out_list]
    while todo:
        n = todo.pop()
        if n in node_inputs or n in needed:
            continue
        needed.add(n)
        if src[n] == "x" and "@x" not in in_nodes:
            missing = True
        todo.extend(alldeps[n])
    if missing:
        expect_error = True
    data = {"deps": deps, "src": src, "idx": idx_use, "kw": kw_use, "act": act, "inputs": repr(inputs), "outputs": outputs, "form": form,
            "setup0": setup0, "flavour": flavour}
    if id_clash and c.choose(2, "prior_compose_other_alias_form"):
        # an earlier compose() on the same DAG named the first node by reference: the string form must still mean the tag
        try:
            d.compose("pre", ..., xns[labels[0]])
        except SXControl:
            raise
        except Exception:  # noqa: BLE001  (what that composition does is not the subject)
            pass
        c.cover("w_prior_compose")
    cnt.reset()
    raised: Optional[BaseException] = None
    composed = None
    try:
        composed = d.compose("cmp", ... if inputs is ... else [alias(m) for m in inputs],
                             alias(outputs) if isinstance(outputs, str) else [alias(m) for m in outputs])
    except SXControl:
        raise
    except ValueError as e:
        raised = e
    except BaseException as e:
        c.check(False, "compose raised %r (documented: ValueError or a DAG)" % (e,), prop="C19", data=data)
        raise
    if expect_error:
        c.check(raised is not None, "invalid composition (insufficient inputs / input depending on an input / ambiguous alias) was accepted",
                prop="C19", data=data)
        c.cover("w_error_case")
    else:
        c.check(raised is None, "valid composition raised %r" % (raised,), prop="C19", data=data)
        # call the composed DAG with fresh values
        A = [c.val("in%d" % i) for i in range(len(in_nodes))]
        subst = {m: A[i] for i, m in enumerate(in_nodes) if not m.startswith("@")}
        xv = A[in_nodes.index("@x")] if "@x" in in_nodes else None
        yv = A[in_nodes.index("@y")] if "@y" in in_nodes else YDEF
        val = evaluate(xv, yv, subst, only=needed)
        want: Any = val[outputs] if isinstance(outputs, str) else tuple(val[o] for o in outputs)
        try:
            got = run(composed, *A)
        except SXControl:
            raise
        except BaseException as e:
            c.check(False, "composed DAG raised %r" % (e,), prop="C19", data=data)
            raise
        c.check(veq(got, want), "composed DAG result differs from the original evaluated with the substituted input values", prop="C19",
                data={**data, "got": got, "want": want})
        want_run = {l for l in needed if l not in subst and val[l] is not None}
        if setup0:
            want_run.discard(labels[0])  # the setup result is taken from the original (it ran in `before`)
        c.check(cnt.entered() == want_run and all(v == 1 for v in cnt.n.values()),
                "composed DAG executed %s, the outputs need %s" % (dict(cnt.n), sorted(want_run)), prop="C19", data=data)
        if node_inputs and needed - set(node_inputs):
            c.cover("w_proper_composition")
        if any(l in act and act[l] in node_inputs for l in needed):
            c.cover("w_flag_from_input")
    # ---- the original is unchanged
    cnt.reset()
    after = run(d, X)
    c.check(veq(after, before), "the original DAG returns something else after compose / after running the composed DAG", prop="C19",
            data={**data, "before": before, "after": after})
    c.check(_snapshot(d) == snap, "the original DAG's node table / results / graph changed by compose", prop="C19", data=data)
    if composed is not None and not expect_error:
        # a second composition from the same original still works and agrees
        try:
            again = d.compose("cmp2", ... if inputs is ... else [alias(m) for m in inputs],
                              alias(outputs) if isinstance(outputs, str) else [alias(m) for m in outputs])
            got2 = run(again, *A)
        except SXControl:
            raise
        except BaseException as e:
            c.check(False, "second composition from the same original raised %r" % (e,), prop="C19", data=data)
            raise
        c.check(veq(got2, want), "second composition from the same original computes something else", prop="C19", data=data)
    if cfg.twin:
        c.check(False, "reachability twin: the end of the harness is reachable", prop="TWIN")
    c.cover("states", hash(repr(data)))
    return data


def _ran(l: str, val: Dict[str, Any], act: Dict[str, str]) -> bool:
    if l in act:
        f = val[act[l]]
        return bool(f) if f is not None else False
    return True
