"""Translation validation of the front end: DAG result == plain-Python result (C01, C10, C20, C17 flavour part).

A *program* is a small describing function assembled from solver-chosen holes (which function, which
arguments from the pool of available values, positional / keyword, indexing, unpacking, operators,
and_/or_/not_, twz_active flags of every form, nested DAG calls with supplied / defaulted parameters,
return shape).  The very same describing code is executed twice: once under @dag with @xn-decorated
functions (then called with symbolic inputs, on the real scheduler), once as ordinary Python with the
undecorated callables.  Node functions are uninterpreted, inputs are symbolic values; z3 proves the two
results equal (and the per-function entry counts are compared), i.e. for every input and every choice
of node functions.
"""
from __future__ import annotations

import dataclasses
import warnings
from typing import Any, Callable, Dict, List, Optional, Tuple

from harness.common import watchdog, Counter, term_fn
from sx.engine import Ctx, SXControl, SymVal, veq


@dataclasses.dataclass(frozen=True)
class DCfg:
    stmts: Tuple[str, ...] = ("s", "s")  # number of statements of the program template
    budget: int = 3  # a program deviates from the base program in at most this many holes
    focus: str = "C01"  # C01 | C10 | C20
    flavours: str = "s"
    depth: int = 1  # nesting depth of the inner DAGs available to 'sub' statements
    config: bool = False  # reconfigure priorities / is_sequential / max_concurrency by dict / yaml / json
    resources: str = "m"
    twin: bool = False  # reachability twin: the harness ends with check(False), which must come back violated


NOFLAG = object()


class _Sentinel:
    """A default value whose identity matters (`x is SENTINEL`)."""

    def __repr__(self) -> str:
        return "SENTINEL"


SENTINEL = _Sentinel()


class Mode:
    """Switch between the tawazi build and the plain-Python evaluation of the same describing code."""

    def __init__(self) -> None:
        self.tawazi = True
        self.fn: Dict[str, Any] = {}  # name -> (plain callable, xn object, unpack_to)
        self.dags: Dict[str, Any] = {}  # name -> (plain describing function, DAG object, return shape, (n required, n defaulted))
        self.own_flag: Dict[str, bool] = {}  # nested DAG (transitively) contains a node with its own twz_active
        self.user_fns: List[str] = []  # functions the generated outer program may call
        self.debug_used = False
        self.user_dags: List[str] = []

    def call(self, name: str, args: List[Any], kw: Dict[str, Any], active: Any = NOFLAG, reserved: Optional[Dict[str, Any]] = None) -> Any:
        plain, node, unpack = self.fn[name]
        reserved = reserved or {}
        unpack = reserved.get("twz_unpack_to") or unpack  # call-level unpacking overrides the decorator's
        if self.tawazi:
            if active is not NOFLAG:
                kw = dict(kw, twz_active=active)
            return node(*args, **kw, **reserved)
        v = None if (active is not NOFLAG and not active) else plain(*args, **kw)
        if unpack:
            return tuple(v[i] for i in range(unpack))
        return v

    def sub(self, name: str, args: List[Any], active: Any = NOFLAG) -> Any:
        plain, d, shape, _sig = self.dags[name]
        if self.tawazi:
            kw = {} if active is NOFLAG else {"twz_active": active}
            return d(*args, **kw)
        if active is not NOFLAG and not active:
            return shape_none(shape)
        return plain(*args)

    def op(self, name: str, x: Any, y: Any = None) -> Any:
        from tawazi import and_, not_, or_

        if name == "add":
            return x + y
        if name == "lt":
            return x < y
        if name == "eq":
            return x == y
        if name == "neg":
            return -x
        if name == "and":
            return and_(x, y) if self.tawazi else (x and y)
        if name == "or":
            return or_(x, y) if self.tawazi else (x or y)
        if name == "not":
            return not_(x) if self.tawazi else (not x)
        raise AssertionError(name)


def shape_none(shape: Any) -> Any:
    k = shape[0]
    if k == "single":
        return None
    if k == "tuple":
        return tuple(None for _ in range(shape[1]))
    if k == "list":
        return [None for _ in range(shape[1])]
    if k == "dict":
        return {key: None for key in shape[1]}
    raise AssertionError(shape)


OPS = ("add", "lt", "eq", "and", "or", "neg", "not")
OPS1 = ("neg", "not")


class Holes:
    """Every hole of the program template has a default; a program of the explored family deviates from the
    base program in at most `budget` holes (all such programs are enumerated, each deviation a solver choice)."""

    def __init__(self, c: Ctx, budget: int):
        self.c = c
        self.left = budget
        self.log: List[Tuple[str, int]] = []

    def hole(self, label: str, n_alts: int) -> int:
        if self.left <= 0 or n_alts <= 0:
            return 0
        k = self.c.choose(n_alts + 1, label)
        if k:
            self.left -= 1
            self.log.append((label, k))
        return k


class Gen:
    """Draws the holes of one program and interprets the resulting spec in either mode."""

    def __init__(self, c: Ctx, cfg: DCfg, mode: Mode, holes: Holes, cnt: Counter):
        self.c, self.cfg, self.M, self.H, self.cnt = c, cfg, mode, holes, cnt
        self.used_dags: set = set()
        self.last_sub: Any = NOFLAG

    # ---- references into the pool ----------------------------------------------------------------
    def ref(self, label: str, default: Any, alts: List[Any]) -> Any:
        alts = [a for a in alts if a != default]
        k = self.H.hole(label, len(alts))
        return default if k == 0 else alts[k - 1]

    @staticmethod
    def deref(ref: Any, pool: List[Any]) -> Any:
        if ref[0] == "const":
            return ref[1]
        if ref[0] == "pool":
            return pool[ref[1]]
        return pool[ref[1]][ref[2]]

    def flag(self, L: str, last: int, default: Any = None) -> Any:
        # (two statements can be flagged by different parts of one value: x[0] and x[1] of the DAG input)
        alts = [None, ("const", True), ("const", False), ("const", None), ("const", 0), ("const", 3), ("pool", last), ("pool", 1),
                ("idx", last, 0), ("idx", 0, 0), ("idx", 0, 1)]
        return self.ref(L + ".flag", default, alts)

    # ---- statements ----------------------------------------------------------------------------
    def draw_stmt(self, npool: int, k: int) -> Any:
        cfg, H, M = self.cfg, self.H, self.M
        L = "s%d" % k
        last = npool - 1
        base_kind = "sub" if (cfg.focus == "C20" and k == 0) else "call"
        kinds = [base_kind] + [x for x in ("call", "op", "sub") if x != base_kind]
        if cfg.depth < 1 or {"inner", "innerb"} <= self.used_dags:
            kinds.remove("sub")  # (each inner DAG can be embedded once per outer DAG)
        kind = kinds[H.hole(L + ".kind", len(kinds) - 1)]
        base_flag = ("pool", 1) if (cfg.focus == "C10" and k == len(cfg.stmts) - 1) else None
        if kind == "call":
            # (innerf: an outer node whose id merely starts with the name of the nested DAGs)
            names = (["f", "g", "f2"] if cfg.focus != "C20" else ["f", "h", "f2"]) + ["innerf"]
            name = names[H.hole(L + ".fn", len(names) - 1)]
            a0 = self.ref(L + ".a0", ("pool", last), [("pool", 0), ("const", 3), ("const", None), ("idx", last, 0), ("idx", last, "k"), ("idx", last, (0, 1))])
            # (1 and True are equal and hash alike, yet they are different constants)
            a1 = self.ref(L + ".a1", None, [("pool", 0), ("pool", last), ("const", 3), ("idx", last, 0), ("const", 1), ("const", True)])
            args = [a0] + ([a1] if a1 is not None else [])
            kwlast = bool(H.hole(L + ".kw", 1))
            # reserved keyword arguments given at the call site: a tag (no effect on values) or an unpacking count
            rk = H.hole(L + ".reserved", 2 if name != "f2" else 1)
            reserved = {} if rk == 0 else ({"twz_tag": "tg%d" % k} if rk == 1 else {"twz_unpack_to": 2})
            return ("call", name, args, kwlast, reserved, self.flag(L, last, base_flag))
        if kind == "op":
            op = OPS[H.hole(L + ".op", len(OPS) - 1)]
            x = self.ref(L + ".x", ("pool", last), [("pool", 0)])
            y = self.ref(L + ".y", ("pool", 0), [("pool", last), ("const", 3)]) if op not in OPS1 else None
            swap = bool(op in ("add", "lt", "eq") and H.hole(L + ".swap", 1))  # `y op x`: with a constant y the reflected operator runs
            return ("op", op, x, y, swap)
        name = "inner" if "inner" not in self.used_dags else "innerb"
        self.used_dags.add(name)
        if name not in M.dags:
            build_inner(self.c, M, H, name, cfg.depth if name == "inner" else 1)
        nreq, ndef = M.dags[name][3]
        nsup = nreq + H.hole(L + ".nsup", ndef)
        # (True == 1 and 1 is a default value: an explicit argument that merely compares equal to the default is still explicit)
        args = [self.ref("%s.a%d" % (L, i), ("pool", last) if i == 0 else ("pool", 0), [("pool", 0), ("const", 3), ("pool", last), ("const", True), ("const", None)])
                for i in range(nsup)]
        flag = self.flag(L, last, base_flag)
        # documented as unsupported: a twz_active on a nested DAG that already contains a flagged node
        self.c.assume(not (flag is not None and M.own_flag[name]))
        return ("sub", name, args, flag)

    def exec_stmt(self, st: Any, pool: List[Any]) -> None:
        M = self.M
        if st[0] == "call":
            _, name, args, kwlast, reserved, active = st
            vals = [self.deref(a, pool) for a in args]
            kw: Dict[str, Any] = {}
            if kwlast:
                kw["k"] = vals.pop()
            flag = NOFLAG if active is None else self.deref(active, pool)
            r = M.call(name, vals, kw, flag, reserved)
            if isinstance(r, tuple):
                pool.extend(r)
            else:
                pool.append(r)
        elif st[0] == "op":
            _, op, x, y, swap = st
            a, b = self.deref(x, pool), (None if y is None else self.deref(y, pool))
            pool.append(M.op(op, b, a) if swap else M.op(op, a, b))
        else:
            _, name, args, active = st
            flag = NOFLAG if active is None else self.deref(active, pool)
            r = M.sub(name, [self.deref(a, pool) for a in args], flag)
            self.last_sub = r
            shape = M.dags[name][2]
            if shape[0] == "single":
                pool.append(r)
            elif shape[0] in ("tuple", "list"):
                pool.extend(list(r))
            else:
                pool.extend(r[key] for key in shape[1])

    def draw_ret(self, npool: int) -> Any:
        shapes = ("single", "tuple", "list", "dict", "none", "mixed", "first", "subwhole")
        s = shapes[self.H.hole("ret", len(shapes) - 1)]
        return (s, list(range(max(0, npool - 2), npool)))

    def exec_ret(self, ret: Any, pool: List[Any]) -> Any:
        s, idx = ret
        vals = [pool[i] for i in idx]
        if s == "subwhole" and self.last_sub is not NOFLAG:
            return self.last_sub  # the container returned by the nested DAG, passed on as a whole
        if s in ("single", "subwhole"):
            return vals[-1]
        if s == "first":
            return vals[0]
        if s == "tuple":
            return tuple(vals)
        if s == "list":
            return list(vals)
        if s == "dict":
            return {"r%d" % i: v for i, v in enumerate(vals)}
        if s == "none":
            return None
        return (vals[-1], 5, vals[0])  # results mixed with a describing-time constant


INNER_SHAPES = (("single",), ("tuple", 2), ("list", 2), ("dict", ("u", "p")))


def build_inner(c: Ctx, M: Mode, H: Holes, name: str, depth: int) -> None:
    """An inner DAG  name(p, q=5) / name(p, q=5, w=6) / name(p) / name(p, q): u = h(params...) ; return <shape>.
    With depth >= 2 it calls a further inner DAG on u (and so on)."""
    from tawazi import dag

    shape = INNER_SHAPES[H.hole(name + ".shape", len(INNER_SHAPES) - 1)]
    # (a DAG that is called with one argument by its enclosing DAG has exactly one required parameter)
    sig = ((1, 1), (1, 2), (1, 0), (2, 0))[H.hole(name + ".sig", 2 if name.endswith("_in") else 3)]
    nested = depth > 1
    if nested:
        build_inner(c, M, H, name + "_in", depth - 1)
    # the node inside the nested DAG: argument form and an activation flag of its own
    argform = ("pos", "kw", "idx", "kwidx", "idx2")[H.hole(name + ".argform", 4)]  # idx2: two parts of one value, h(p[1], p[0])
    dflt = (1, None, SENTINEL)[H.hole(name + ".default", 2)]  # default value of the defaulted parameters (SENTINEL: identity matters)
    with_debug = bool(H.hole(name + ".debugnode", 1))  # a debug node inside the nested DAG (RUN_DEBUG_NODES is on for the run)
    if with_debug:
        M.debug_used = True
    ownflag = (None, "p", "pidx", False)[H.hole(name + ".ownflag", 3)]
    hname = ("h", "hq")[H.hole(name + ".dotted", 1)]  # hq: a node function with a dotted qualified name (a method, a local function)

    def body(*params: Any) -> Any:
        p = params[0]
        args, kw = list(params), {}
        if argform == "kw":
            kw["k"] = args.pop()
        elif argform == "idx":
            args[-1] = args[-1][0]
        elif argform == "kwidx":
            kw["k"] = args.pop()["k"]
        elif argform == "idx2":
            args = [p[1], p[0]] + args[1:]
        flag = NOFLAG if ownflag is None else (p if ownflag == "p" else (p[0] if ownflag == "pidx" else False))
        u = M.call(hname, args, kw, flag)
        if with_debug:
            M.call("hd", [u], {})  # its value is not used; whether it runs is compared through the entry counts
        if nested:
            r = M.sub(name + "_in", [u])
            sh = M.dags[name + "_in"][2]
            u = r if sh[0] == "single" else (r[0] if sh[0] in ("tuple", "list") else r["u"])
        if shape[0] == "single":
            return u
        if shape[0] == "tuple":
            return (u, p)
        if shape[0] == "list":
            return [u, p]
        return {"u": u, "p": p}

    # functions with real signatures (tawazi inspects them)
    if sig == (1, 1):
        def fn(p, q=dflt):  # type: ignore[no-untyped-def]
            return body(p, q)
    elif sig == (1, 2):
        def fn(p, q=dflt, w=6):  # type: ignore[no-untyped-def]
            return body(p, q, w)
    elif sig == (1, 0):
        def fn(p):  # type: ignore[no-untyped-def]
            return body(p)
    else:
        def fn(p, q):  # type: ignore[no-untyped-def]
            return body(p, q)
    # the inner DAGs share their simple name and differ in their qualified name (as DAGs made by two factories do)
    fn.__name__ = "inner"
    fn.__qualname__ = name
    M.tawazi = True
    d = dag(fn)
    M.dags[name] = (fn, d, shape, sig)
    M.own_flag[name] = ownflag is not None or (nested and M.own_flag[name + "_in"])


@watchdog(lambda cfg: cfg.focus)
def run_dataflow(cfg: DCfg, c: Ctx) -> Any:
    from tawazi import Resource, dag, xn
    from tawazi.errors import TawaziBaseException

    M = Mode()
    cnt = Counter()
    H = Holes(c, cfg.budget)
    res = {"m": Resource.main_thread, "t": Resource.thread, "a": Resource.async_thread}
    resource = res[cfg.resources[H.hole("res", len(cfg.resources) - 1)]]
    flavour = cfg.flavours[H.hole("flavour", len(cfg.flavours) - 1)]
    for name, unpack in (("f", None), ("g", None), ("h", None), ("f2", 2), ("hd", None), ("hq", None), ("innerf", None)):
        plain = term_fn(name, cnt)
        if name == "hq":
            plain.__qualname__ = "Owner.hq"
        M.fn[name] = (plain, xn(plain, unpack_to=unpack, resource=resource, debug=(name == "hd")), unpack)
    g = Gen(c, cfg, M, H, cnt)
    # ---- draw the program
    supply_b = H.hole("supply_b", 2)  # the defaulted DAG parameter: omitted / a symbolic value / an explicit None
    supplied_b = bool(supply_b)
    b_default = (11, 0, None)[H.hole("b_default", 2)]  # default of the DAG's second parameter (a falsy default is still only a default)
    prelude = bool(H.hole("prelude", 1))  # a first node whose id starts with the nested DAGs' name; its result is not used
    npool = 2
    stmts = []
    for k in range(len(cfg.stmts)):
        st = g.draw_stmt(npool, k)
        stmts.append(st)
        # pool growth is static
        if st[0] == "call":
            npool += st[4].get("twz_unpack_to") or M.fn[st[1]][2] or 1
        elif st[0] == "op":
            npool += 1
        else:
            sh = M.dags[st[1]][2]
            npool += 1 if sh[0] == "single" else 2
    ret = g.draw_ret(npool)
    c.heavy()
    spec = {"stmts": stmts, "ret": ret, "supplied_b": supplied_b, "prelude": prelude, "flavour": flavour, "deviations": list(H.log),
            "inner": {k: (v[2], v[3]) for k, v in M.dags.items()}}

    def describe(a, b=b_default):  # type: ignore[no-untyped-def]
        pool = [a, b]
        g.last_sub = NOFLAG
        if prelude:
            M.call("innerf", [a], {})
        for st in stmts:
            g.exec_stmt(st, pool)
        return g.exec_ret(ret, pool)

    describe.__name__ = describe.__qualname__ = "outer"
    # ---- tawazi side
    M.tawazi = True
    build_exc: Optional[BaseException] = None
    try:
        d = dag(describe, is_async=(flavour == "a"))
    except SXControl:
        raise
    except BaseException as e:
        build_exc = e
    from tawazi import cfg as twz_cfg

    saved_debug = twz_cfg.RUN_DEBUG_NODES
    twz_cfg.RUN_DEBUG_NODES = bool(M.debug_used)
    A, B = c.val("a"), c.val("b")
    call_args = ((A, B) if supply_b == 1 else (A, None)) if supplied_b else (A,)
    got: Tuple[str, Any]
    cnt.reset()
    if build_exc is None:
        if cfg.config:
            _reconfigure(c, H, d)
        try:
            if flavour == "a":
                import asyncio

                out = asyncio.run(d(*call_args))
            else:
                out = d(*call_args)
            got = ("value", out)
        except SXControl:
            raise
        except TawaziBaseException as e:
            got = ("raise", type(e.__cause__).__name__ if e.__cause__ is not None else type(e).__name__)
        except BaseException as e:
            got = ("raise", type(e).__name__)
    else:
        got = ("build-raise", repr(build_exc)[:200])
    twz_cfg.RUN_DEBUG_NODES = saved_debug
    counts_dag = dict(cnt.n)
    # ---- plain side
    M.tawazi = False
    cnt.reset()
    try:
        want: Tuple[str, Any] = ("value", describe(*call_args))
    except SXControl:
        raise
    except BaseException as e:
        want = ("raise", type(e).__name__)
    counts_plain = dict(cnt.n)
    data = {"spec": spec, "got": got, "want": want, "counts_dag": counts_dag, "counts_plain": counts_plain}
    prop = cfg.focus
    if want[0] == "raise":
        # the plain program itself fails (e.g. None + x, or unpacking / indexing the None of a deactivated call, which
        # plain Python refuses eagerly and the DAG only when the element is used): nothing is demanded of the DAG
        c.cover("w_plain_raises")
        return {"spec": spec, "outcome": "plain raises"}
    c.check(got[0] == "value", "DAG %s where the plain-Python evaluation returns a value" % (got,), prop=prop, data=data)
    c.check(veq(got[1], want[1]), "DAG result differs from the plain-Python evaluation", prop=prop, data=data)
    c.check(counts_dag == counts_plain, "functions entered by the DAG %s differ from the plain-Python evaluation %s" % (counts_dag, counts_plain),
            prop=prop, data=data)
    c.cover("states", hash(repr(spec)))
    for st in stmts:
        c.cover("w_" + st[0])
        if st[-1] is not None and st[0] != "op":
            c.cover("w_flag")
            if st[-1][0] == "idx":
                c.cover("w_flag_indexed")
            if st[0] == "sub":
                c.cover("w_flag_on_nested")
    if sum(counts_plain.values()) < len([s for s in stmts if s[0] == "call"]) + len([s for s in stmts if s[0] == "sub"]):
        c.cover("w_deactivated")
    if cfg.twin:
        c.check(False, "reachability twin: the end of the harness is reachable", prop="TWIN")
    return {"spec": spec, "outcome": "equal"}


def _reconfigure(c: Ctx, H: Holes, d: Any) -> None:
    """Configuration reaches the DAG by dict / YAML / JSON with concrete values chosen on the path."""
    import json
    import os
    import tempfile

    route = H.hole("cfgroute", 3)
    if route == 0:
        return
    ids = [i for i, x in d.exec_nodes.items() if type(x).__name__ == "LazyExecNode" and "." not in i]
    if not ids:
        return
    target = ids[H.hole("cfgnode", len(ids) - 1)]
    conf = {"nodes": {target: {"priority": H.hole("cfgprio", 2) - 1 if False else (0, 1, -1)[H.hole("cfgprio", 2)],
                               "is_sequential": bool(H.hole("cfgseq", 1))}},
            "max_concurrency": 1 + H.hole("cfgmc", 1)}
    if route == 1:
        d.config_from_dict(conf)
        return
    fd, path = tempfile.mkstemp(suffix=".json" if route == 2 else ".yaml", prefix="sxcfg")
    os.close(fd)
    try:
        with open(path, "w") as f:
            if route == 2:
                json.dump(conf, f)
            else:
                import yaml

                yaml.safe_dump(conf, f)
        if route == 2:
            d.config_from_json(path)
        else:
            d.config_from_yaml(path)
    finally:
        os.unlink(path)


# ------------------------------------------------------------------------------------------------ nested DAGs that were derived
@dataclasses.dataclass(frozen=True)
class NCfg:
    twin: bool = False


@watchdog(lambda cfg: "C20")
def run_nested_derived(cfg: NCfg, c: Ctx) -> Any:
    """The inner DAG of a nesting is itself derived: composed from a base DAG (its node table is then not in description
    order), reconfigured, deep-copied or already called / set up before it is embedded.  The outer DAG must equal the
    plain evaluation of the same body written in place."""
    import copy as _copy

    from tawazi import Resource, dag, xn
    from tawazi.errors import TawaziBaseException

    warnings.simplefilter("ignore")
    cnt = Counter()
    how = ("composed", "composed-twice", "reconfigured", "deep-copied", "called-before")[c.choose(5, "derivation")]
    use = ("forward", "index", "flagged")[c.choose(3, "use")]
    res = (Resource.main_thread, Resource.thread)[c.choose(2, "resource")]
    names = ["h1", "h2", "h3", "h4", "h5", "f", "g"]
    plain = {n: term_fn(n, cnt) for n in names}
    X = {n: xn(plain[n], resource=res) for n in names}

    def base_body(F: Dict[str, Any], p: Any, q: Any) -> Any:
        a = F["h1"](p)
        b = F["h2"](a, q)
        cc = F["h3"](b)
        d_ = F["h4"](cc, k=a)
        e = F["h5"](d_, b)
        return e, cc

    def base(p, q=5):  # type: ignore[no-untyped-def]
        return base_body(X, p, q)

    base.__qualname__ = base.__name__ = "base"
    B = dag(base)
    # the inner DAG and its plain meaning as a function of the value the outer DAG passes in
    if how in ("composed", "composed-twice"):
        inner = B.compose("core", [X["h1"]], [X["h5"], X["h3"]])  # the supplied value stands for h1's result
        if how == "composed-twice":
            inner = inner.compose("core2", ..., [X["h5"], X["h3"]])

        def inner_plain(v: Any) -> Any:
            b = plain["h2"](v, 5)
            cc = plain["h3"](b)
            return plain["h5"](plain["h4"](cc, k=v), b), cc
    else:
        inner = B
        if how == "reconfigured":
            inner.config_from_dict({"nodes": {"h3": {"priority": 4}, "h4": {"is_sequential": True}}})
        elif how == "deep-copied":
            inner = _copy.deepcopy(B)
        elif how == "called-before":
            B(c.val("earlier"))
            cnt.reset()

        def inner_plain(v: Any) -> Any:
            return base_body(plain, v, 5)
    def outer_body(F: Dict[str, Any], sub: Any, x: Any, plain_mode: bool) -> Any:
        u = F["f"](x)
        if use == "flagged":
            if plain_mode:
                r = sub(u) if x else (None, None)
            else:
                r = sub(u, twz_active=x)
        else:
            r = sub(u)
        if use == "index":
            return F["g"](r[0]), r[1]
        return r

    def outer(x):  # type: ignore[no-untyped-def]
        return outer_body(X, inner, x, False)

    outer.__qualname__ = outer.__name__ = "outer"
    data: Dict[str, Any] = {"derivation": how, "use": use, "resource": res.value}
    try:
        O = dag(outer)
    except SXControl:
        raise
    except (TawaziBaseException, KeyError, ValueError, TypeError) as e:
        c.check(False, "embedding a %s DAG failed with %r where the body written in place is valid" % (how, e), prop="C20", data=data)
        raise
    xv = c.val("x")
    cnt.reset()
    got = O(xv)
    counts = dict(cnt.n)
    cnt.reset()
    want = outer_body(plain, inner_plain, xv, True)
    counts_plain = dict(cnt.n)
    c.check(veq(got, want), "DAG result differs from the plain-Python evaluation of the body written in place", prop="C20", data={**data, "got": got, "want": want})
    c.check(counts == counts_plain, "node functions entered %s, the body written in place enters %s" % (counts, counts_plain), prop="C20", data=data)
    ids = list(O.exec_nodes)
    c.check(len(ids) == len(set(ids)), "node ids collide", prop="C20", data=data)
    c.cover("w_derived_" + how)
    c.cover("states", hash((how, use, res.value)))
    if cfg.twin:
        c.check(False, "reachability twin: the end of the harness is reachable", prop="TWIN")
    return data
