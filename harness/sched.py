"""Whole-run symbolic exploration of the real scheduler (tawazi._dag.helpers.async_execute).

A generic program over N nodes is built through the public API (@xn, @dag, executor): edges,
resources, selection, activation edge, fault positions are solver-chosen, priorities /
max_concurrency / sequential flags / node values stay symbolic.  The real scheduler then runs in the
nondeterministic environment of sx.env; monitors around it decide C02-C06, C08, C09, C14, C17 and the
schedule-independence part of C01.
"""
from __future__ import annotations

import dataclasses
from typing import Any, Dict, List, Optional, Set, Tuple

import z3

from sx import env as E
from sx.engine import Ctx, SBool, SInt, SXControl, SymVal, lift, truthy, vapp, veq

RES_NAMES = {"t": "thread", "m": "main-thread", "a": "async-thread"}
FLAG_CONSTS = {"NONE": None, "TRUE": True}
FLAG_SOURCES = ("IN", "NONE", "TRUE")
REAL: Dict[str, Any] = {"schedule": None, "world": None}  # set by replay_real(): run on the real pool / loop following this schedule


@dataclasses.dataclass(frozen=True)
class Cfg:
    N: int = 3
    resources: str = "tma"  # subset of t(hread) m(ain-thread) a(sync-thread)
    max_async: int = 99  # at most this many async-thread nodes
    sym_prio: bool = False
    sym_seq: bool = True
    activation: bool = False
    faults: int = 0  # at most this many failing nodes
    selection: bool = False
    flavours: str = "s"  # s(ync) a(sync)
    kwargs: bool = False  # last dependency passed by keyword
    # (route s: is_sequential of every node through one entry addressed to the tag all nodes share; route k: the DAG is
    #  derived with compose(..., max_concurrency=mc) from one built with another limit)
    # how the configuration reaches the DAG: d(ecorators) a(ttribute assignment of max_concurrency) c(onfig_from_dict with
    # priority + is_sequential per node) p(config_from_dict with the priority only: is_sequential must survive)
    # t(config_from_dict addressed through a tag shared by all nodes: one priority for all, is_sequential must survive)
    routes: str = "d"
    nested: bool = False  # one node may live in a nested DAG (its attributes must survive the embedding)
    warmup: bool = False  # with a configuration route: the DAG may have been called once before it is reconfigured
    profiling: bool = False  # also explore cfg.TAWAZI_PROFILE_ALL_NODES = True
    mc_fixed: int = 0  # 0: symbolic
    # fixed shapes instead of every shape on N nodes: each shape lists the indices of the dependencies of node i
    fixed_shapes: Tuple[Tuple[Tuple[int, ...], ...], ...] = ()
    setup_call: bool = False  # every node is a setup node and the operation is DAG.setup(<selection>) instead of a call
    distinct_cp: bool = False  # assume pairwise distinct compound priorities; the C06 monitor is then strict
    setup_first: bool = False  # the first node is a setup node when it has no dependency (an ordinary call, roots take no input)
    failed_before: bool = False  # the executor that runs may have had an earlier run in which a node failed (unmonitored)
    debug_leaf: bool = False  # one leaf may be a debug node, RUN_DEBUG_NODES on; the executed set is read off the executor's graph
    monitors: Tuple[str, ...] = ("C02", "C03", "C04", "C05", "C08", "C09", "C14", "C17", "C01")
    known_c08: bool = True
    twin: bool = False  # reachability twin: the harness ends with check(False), which must come back violated


class Monitor:
    """Harness-side event records and the property assertions over them."""

    def __init__(self, c: Ctx, cfg: Cfg, spec: Dict[str, Any]):
        self.c = c
        self.cfg = cfg
        self.s = spec
        self.on = set(cfg.monitors)
        self.started: List[str] = []
        self.kind: Dict[str, str] = {}
        self.obs: Set[str] = set()
        self.failed: List[str] = []
        self.failure_observed = False
        self.world: Optional[E.World] = None
        self.max_inflight = 0
        self.dispatched_labels: Set[str] = set()
        self.unknown_dispatch = False

    # ------------------------------------------------------------------ helpers
    def chk(self, prop: str, e: Any, msg: str, data: Optional[Dict[str, Any]] = None, known: Any = None) -> None:
        if prop in self.on:
            d = {"started": list(self.started), "observed": sorted(self.obs)}
            d.update(data or {})
            self.c.check(e, msg, prop=prop, data=d, known=known)

    def unobserved(self) -> List[str]:
        return [l for l in self.started if l not in self.obs]

    def satisfied(self, j: str) -> bool:
        """Dependency j no longer holds its dependents back."""
        s = self.s
        if j not in s["exec_set"]:
            return True
        if not s["active"][j]:
            return all(self.satisfied(d) for d in s["alldeps"][j])
        return j in self.obs

    def ready(self) -> List[str]:
        s = self.s
        return [
            l
            for l in s["labels"]
            if l in s["exec_set"] and s["active"][l] and l not in self.started
            and all(self.satisfied(d) for d in s["alldeps"][l])
        ]

    # ------------------------------------------------------------------ events
    def node_entered(self, label: str, args: Tuple[Any, ...], kwargs: Dict[str, Any]) -> Any:
        s, c, w = self.s, self.c, self.world
        assert w is not None
        fut = w.cur_future
        kind = "inline" if fut is None else fut.kind
        if fut is not None:
            fut.label = label
        w.event("enter", label, kind)
        c.cover("starts")
        # C03: at most once, and only selected active nodes
        self.chk("C03", label not in self.started, "node %s entered twice in one execution" % label)
        self.chk("C03", label in s["exec_set"] and s["active"][label],
                 "node %s entered although it is not a selected active node" % label)
        # C14: nothing starts after an observed failure, no descendant of a failed node starts
        self.chk("C14", not self.failure_observed, "node %s started after the scheduler observed a failure" % label)
        for f in self.failed:
            self.chk("C14", label not in s["desc"][f], "node %s started although its ancestor %s failed" % (label, f))
        # C02: dependencies observed finished, received values are theirs
        for d in s["alldeps"].get(label, ()):
            if d in s["exec_set"] and s["active"][d]:
                self.chk("C02", d in self.obs,
                         "node %s entered before its dependency %s was observed finished" % (label, d), {"node": label, "dep": d})
        if label in s["ref_args"]:
            ra, rk = s["ref_args"][label]
            self.chk("C02", veq([list(args), dict(kwargs)], [list(ra), dict(rk)]),
                     "node %s received arguments that are not its dependencies' values" % label,
                     {"node": label, "got": (args, kwargs), "want": (ra, rk)})
        # C04: resource decides the mechanism; pooled in flight <= max_concurrency
        res = s["res"][label]
        want_kind = {"thread": "thread", "async-thread": "async", "main-thread": "inline"}[res]
        self.chk("C04", kind == want_kind, "node %s with resource %s ran through %s" % (label, res, kind))
        others = self.unobserved()
        pooled = [l for l in others if self.kind[l] != "inline"]
        if kind != "inline":
            n = len(pooled) + 1
            self.max_inflight = max(self.max_inflight, n)
            self.chk("C04", z3.IntVal(n) <= s["mc"].z, "%d pooled nodes in flight exceed max_concurrency" % n,
                     {"in_flight": pooled + [label]})
        else:
            self.chk("C04", not any(self.kind[l] == "inline" for l in others), "two main-thread nodes overlap")
        # C05: sequential exclusivity
        for l in others:
            self.chk("C05", z3.Not(_zb(s["seq"][l])), "node %s started while sequential node %s is running" % (label, l),
                     {"node": label, "running": l})
        if others:
            self.chk("C05", z3.Not(_zb(s["seq"][label])), "sequential node %s started while %s still running" % (label, others),
                     {"node": label, "running": others})
        # C06: highest compound priority among ready nodes
        if "C06" in self.on and not (kind == "async" and (label in self.dispatched_labels or self.unknown_dispatch)):
            # (an async-thread node is judged when its task is created, see dispatched())
            for j in self.ready():
                if j in self.dispatched_labels or (self.unknown_dispatch and s["res"][j] == "async-thread"):
                    continue  # already dispatched as an asyncio task (starts when the scheduler yields)
                if j != label:
                    self.chk("C06", s["cp"][label] >= s["cp"][j],
                             "node %s started while ready node %s has a greater compound priority" % (label, j),
                             {"node": label, "ready": j})
        self.started.append(label)
        self.kind[label] = kind
        c.cover("states", hash((tuple(self.started), tuple(sorted(self.obs)), s["shape_key"])))
        if len(others) >= 1:
            c.cover("w_two_in_flight")
        # fault injection
        fl = s["fail"][label]
        if fl is not False and bool(fl):
            self.failed.append(label)
            c.cover("w_fault")
            if others:
                c.cover("w_fault_with_sibling")
            if kind == "inline":
                self.failure_observed = True
            raise E.InjectedFault(label)
        val = s["ref_val"][label] if label in s["ref_val"] else SymVal(vapp("f_" + label, [lift(a) for a in args]))
        if kind == "inline":
            self.obs.add(label)
        return val

    def submitted(self, fut: E.FakeFuture) -> None:
        pass

    def dispatched(self, label: Optional[str]) -> None:
        """An asyncio task was created for a node: the dispatch decision is taken, the function is entered when the
        scheduler next yields to the loop.  For "the node that starts is a highest-priority ready node" the decision counts."""
        if label is None:
            self.unknown_dispatch = True
            return
        s = self.s
        if "C06" in self.on and label in s["cp"]:
            for j in self.ready():
                if j != label and j not in self.dispatched_labels:
                    self.chk("C06", s["cp"][label] >= s["cp"][j],
                             "node %s dispatched while ready node %s has a greater compound priority" % (label, j), {"node": label, "ready": j})
        self.dispatched_labels.add(label)

    def pool_submission(self, label: str, n: int) -> None:
        """Real-pool replay: a callable is handed to the pool while n-1 earlier ones are unfinished."""
        self.chk("C04", z3.IntVal(n) <= self.s["mc"].z, "%d pooled nodes in flight exceed max_concurrency" % n, {"submitted": label})

    def observed_fut(self, fut: E.FakeFuture) -> None:
        if fut.label is not None:
            self.obs.add(fut.label)
        if fut.exc is not None:
            self.failure_observed = True

    def blocked(self, S: Set[E.FakeFuture], via: str, mode: str) -> None:
        """The scheduler is blocked in a wait and every member of S is still running."""
        s, c = self.s, self.c
        c.cover("blocked")
        if len(S) >= 2:
            c.cover("w_blocked_on_two")
        running = sorted(f.label for f in S if f.label is not None)
        if via == "shutdown":
            # the worker pool is joined while nodes are still running: the invoking thread - for an AsyncDAG the event loop -
            # is held until they finish (the scheduler itself only shuts the pool down when everything is done)
            self.chk("C17", s["flavour"] != "a", "the event loop is blocked by a pool shutdown while %s are still running" % running,
                     {"blocked_on": running, "via": via})
            return
        # adversarial timing: everything in flight outside S has finished already
        out = [l for l in self.unobserved() if l not in running and self.kind[l] != "inline"]
        saved = set(self.obs)
        self.obs |= set(out)
        try:
            ready = self.ready()
        finally:
            self.obs = saved
        c.cover("states", hash(("b", tuple(self.started), tuple(sorted(self.obs)), tuple(running), s["shape_key"])))
        if "C08" in self.on and ready:
            seq_running = z3.Or([_zb(s["seq"][l]) for l in running] + [z3.BoolVal(False)])
            best_seq = z3.Or([
                z3.And([_zb(s["seq"][r])] + [s["cp"][r] >= s["cp"][o] for o in ready if o != r]) for r in ready
            ])
            ok = z3.Or(s["mc"].z == len(running), seq_running, best_seq)
            kinds_out = sorted({self.kind[l] for l in out})
            kinds_in = sorted({f.kind for f in S})
            # second half of the async-then-thread pair of waits: the preceding environment event is an
            # awaited wait on async futures (so both kinds were in flight when the scheduler decided to block)
            tr = [e for e in (self.world.trace if self.world is not None else []) if e[0] != "finish"]
            after_async_wait = bool(via == "conc" and len(tr) >= 2 and tr[-2][0] == "wait" and tr[-2][1] == "async" and tr[-2][3])
            data = {"blocked_on": running, "in_flight_outside_wait": out, "ready": ready, "via": via, "mode": mode,
                    "kinds_waited": kinds_in, "kinds_outside": kinds_out, "after_async_wait": after_async_wait}

            def known(rec: Dict[str, Any]) -> Optional[str]:
                d = rec["data"]
                if not self.cfg.known_c08 or len(d["kinds_waited"]) != 1:
                    return None
                # F10: thread and async-thread futures were in flight together and the scheduler waits for
                # one of each kind in turn: (a) the wait excludes an in-flight future of the other kind, or
                # (b) it is the thread wait that directly follows the awaited async wait
                if d["in_flight_outside_wait"] and set(d["kinds_outside"]) != set(d["kinds_waited"]):
                    return "F10"
                if d["after_async_wait"]:
                    return "F10"
                return None

            self.chk("C08", ok, "scheduler blocked on %s while %s ready and a slot is free" % (running, ready), data, known)
        if "C17" in self.on:
            inflight_kinds = {self.kind[l] for l in self.unobserved() if self.kind[l] != "inline"}
            if inflight_kinds == {"async"}:
                self.chk("C17", via == "async", "only async-thread nodes in flight but the scheduler blocks the event loop",
                         {"blocked_on": running, "via": via})


def _zb(x: Any) -> Any:
    if isinstance(x, SBool):
        return x.z
    return z3.BoolVal(bool(x))


class _WorldMonitor:
    """Adapter with the callback names sx.env.World expects."""

    def __init__(self, m: Monitor):
        self.m = m

    def submitted(self, fut: E.FakeFuture) -> None:
        self.m.submitted(fut)

    def dispatched(self, label: Optional[str]) -> None:
        self.m.dispatched(label)

    def observed(self, fut: E.FakeFuture) -> None:
        self.m.observed_fut(fut)

    def blocked(self, S: Set[E.FakeFuture], via: str, mode: str) -> None:
        self.m.blocked(S, via, mode)


def closure_spec(labels: List[str], deps: Dict[str, List[str]], mode: Tuple[str, Optional[str]]) -> Set[str]:
    """Independent statement of the documented selection closure on the user-node graph."""
    kind, x = mode
    succ: Dict[str, Set[str]] = {l: set() for l in labels}
    for l, ds in deps.items():
        for d in ds:
            succ[d].add(l)

    def desc(a: str) -> Set[str]:
        out, todo = set(), [a]
        while todo:
            n = todo.pop()
            for m in succ[n]:
                if m not in out:
                    out.add(m)
                    todo.append(m)
        return out

    def anc(a: str) -> Set[str]:
        out, todo = set(), [a]
        while todo:
            n = todo.pop()
            for m in deps[n]:
                if m not in out:
                    out.add(m)
                    todo.append(m)
        return out

    if kind == "whole":
        return set(labels)
    assert x is not None
    if kind == "target":
        return {x} | anc(x)
    if kind == "exclude":
        return set(labels) - ({x} | desc(x))
    if kind == "root":
        return {x} | desc(x)
    raise AssertionError(kind)


def run_sched(cfg: Cfg, c: Ctx) -> Any:
    """One path of the whole-run harness."""
    from tawazi import Resource, dag, xn
    from tawazi.errors import TawaziBaseException

    E.install_watchdog()
    N = cfg.N
    labels = ["n%d" % i for i in range(N)]
    flavour = cfg.flavours[c.choose(len(cfg.flavours), "flavour")] if len(cfg.flavours) > 1 else cfg.flavours
    # ---- shape
    deps: Dict[str, List[str]] = {l: [] for l in labels}
    fixed = None
    if cfg.fixed_shapes:
        fixed = cfg.fixed_shapes[c.choose(len(cfg.fixed_shapes), "shape")] if len(cfg.fixed_shapes) > 1 else cfg.fixed_shapes[0]
    for i in range(N):
        for j in range(i):
            if (j in fixed[i]) if fixed is not None else c.choose(2, "edge"):
                deps[labels[i]].append(labels[j])
    act: Dict[str, str] = {}
    act_indexed = False
    if cfg.activation and N >= 2:
        # the flag of one node is the result of an earlier node or the (symbolic) DAG input
        # ... or a constant written in the describing function: None (falsy: the node is deactivated) or True
        pairs = [(j, i) for i in range(N) for j in range(i)] + [(-1, i) for i in range(N)] + [(-2, i) for i in range(N)] + [(-3, i) for i in range(N)]
        k = c.choose(len(pairs) + 1, "act")
        if k:
            j, i = pairs[k - 1]
            act[labels[i]] = labels[j] if j >= 0 else {-1: "IN", -2: "NONE", -3: "TRUE"}[j]
            c.assume(not (cfg.setup_call and j == -1))  # (a setup node cannot depend on a DAG argument)
            act_indexed = bool(j >= -1 and c.choose(2, "act_indexed"))  # twz_active=flag[0] instead of twz_active=flag
    alldeps = {l: list(dict.fromkeys(deps[l] + ([act[l]] if l in act and act[l] not in FLAG_SOURCES else []))) for l in labels}
    # ---- attributes
    res: Dict[str, str] = {}
    n_async = 0
    for l in labels:
        opts = [r for r in cfg.resources if not (r == "a" and n_async >= cfg.max_async)]
        r = opts[c.choose(len(opts), "res")] if len(opts) > 1 else opts[0]
        n_async += r == "a"
        res[l] = RES_NAMES[r]
    prio = {l: (c.int("p_" + l) if cfg.sym_prio else 0) for l in labels}
    seq = {l: (c.bool("seq_" + l) if cfg.sym_seq else False) for l in labels}
    mc = c.int("mc")
    c.assume(mc.z >= 1)
    if cfg.mc_fixed:
        c.assume(mc.z == cfg.mc_fixed)
    route = cfg.routes[c.choose(len(cfg.routes), "route")] if len(cfg.routes) > 1 else cfg.routes
    mc0, prio0, seq0 = mc, prio, seq
    do_warm = bool(cfg.warmup and route in "cpts" and c.choose(2, "warmup"))
    if route != "d":
        mc0 = c.int("mc_at_build")
        c.assume(mc0.z >= 1)
    sym0 = cfg.sym_prio and not do_warm  # (a warm-up call runs with concrete build-time priorities: no extra forks)
    if route == "c":
        prio0 = {l: (c.int("p_at_build_" + l) if sym0 else 0) for l in labels}
        seq0 = {l: False for l in labels}
    elif route == "p":
        prio0 = {l: (c.int("p_at_build_" + l) if sym0 else 0) for l in labels}
    elif route == "t":
        prio0 = {l: (c.int("p_at_build_" + l) if sym0 else 0) for l in labels}
        shared = c.int("p_shared") if cfg.sym_prio else 0
        prio = {l: shared for l in labels}
    elif route == "s":
        # the sequential flag of every node comes from one configuration entry addressed to their shared tag
        seq0 = {l: (c.bool("seq_at_build_" + l) if cfg.sym_seq else False) for l in labels}
        shared_seq = c.bool("seq_shared") if cfg.sym_seq else True
        seq = {l: shared_seq for l in labels}
    wrapped: Optional[str] = None
    inner_flag = False
    if cfg.nested:
        k = c.choose(N + 1, "nested")
        if k:
            wrapped = labels[k - 1]
    fail: Dict[str, Any] = {l: False for l in labels}
    if cfg.faults:
        fail = {l: c.bool("fail_" + l) for l in labels}
        c.solver.add(z3.Sum([z3.If(fail[l].z, 1, 0) for l in labels]) <= cfg.faults)
    # ---- selection
    sel: Tuple[str, Optional[str]] = ("whole", None)
    if cfg.selection:
        k = c.choose(1 + 3 * N, "sel")
        if k:
            sel = (("target", "exclude", "root")[(k - 1) // N], labels[(k - 1) % N])
            # DAG.setup() targets every setup node unless told otherwise, so an exclusion alone is refused by the library
            c.assume(not (cfg.setup_call and sel[0] == "exclude"))
    succ_count = {l: 0 for l in labels}
    # descendants in the full DAG (dependency edges incl. activation)
    desc: Dict[str, Set[str]] = {l: set() for l in labels}
    for l in reversed(labels):
        for m in labels:
            if l in alldeps[m]:
                desc[l] |= {m} | desc[m]
    if sel[0] == "root":
        # roots of the id graph: nodes without any dependency, here every node takes the DAG input or a
        # constant - only dependency-free user nodes that take no argument at all are roots
        c.assume(not alldeps[sel[1]] and sel[1] not in act and sel[1] != wrapped)  # type: ignore[index]
        # (DAG.setup(root_nodes=...) still targets every setup node: all of them must lie below the root)
        c.assume(not cfg.setup_call or desc[sel[1]] | {sel[1]} == set(labels))  # type: ignore[index]
    exec_set = closure_spec(labels, alldeps, sel)
    dbg: Optional[str] = None
    if cfg.debug_leaf:
        k = c.choose(N + 1, "dbg")
        if k:
            dbg = labels[k - 1]
            c.assume(not desc[dbg])
    cp = {l: (_zi(prio[l]) + z3.Sum([_zi(prio[d]) for d in sorted(desc[l])] + [z3.IntVal(0)])) for l in labels}

    if cfg.distinct_cp:
        c.assume(z3.Distinct([cp[l] for l in labels]) if len(labels) > 1 else True)
    c.heavy()
    spec: Dict[str, Any] = dict(labels=labels, alldeps=alldeps, res=res, seq=seq, mc=mc, fail=fail, desc=desc,
                                exec_set=exec_set, cp=cp, ref_args={}, ref_val={}, active={}, flavour=flavour,
                                shape_key=(tuple(tuple(alldeps[l]) for l in labels), tuple(res[l] for l in labels), sel, flavour, route))
    mon = Monitor(c, cfg, spec)
    real_schedule = REAL.get("schedule")
    if real_schedule is not None:
        from sx import realenv

        world = realenv.RealWorld(c, _WorldMonitor(mon), real_schedule)
        REAL["world"] = world
    else:
        world = E.World(c, _WorldMonitor(mon))
    mon.world = world

    warm = [False]
    warmfail: List[Optional[str]] = [None]

    # ---- node functions and the DAG, through the public API
    def make_fn(label: str) -> Any:
        def fn(*args: Any, **kwargs: Any) -> Any:
            if warm[0]:
                if warmfail[0] == label:
                    raise RuntimeError("injected failure of the earlier run")
                return SymVal(vapp("f_" + label, [lift(a) for a in args]))
            if real_schedule is not None:
                return world.node_body(label, args, kwargs)
            return mon.node_entered(label, args, kwargs)

        fn.__name__ = fn.__qualname__ = label
        return fn

    # a node that takes the DAG input is neither a root of the id graph nor reachable by the debug rule
    root_takes_input = sel[0] != "root" and dbg is None and not cfg.setup_call and not cfg.setup_first
    setup_node = labels[0] if (cfg.setup_first and not alldeps[labels[0]]) else None
    if setup_node is not None:
        c.cover("w_setup_node_in_call")
    xns = {l: xn(make_fn(l), priority=prio0[l], is_sequential=seq0[l], resource=Resource(res[l]), debug=(l == dbg),
                 tag=("g", "t_" + l), setup=(cfg.setup_call or l == setup_node)) for l in labels}
    callers: Dict[str, Any] = dict(xns)
    if wrapped is not None:
        # the node lives in a DAG of its own that the outer describing function calls
        inner_xn = xns[wrapped]
        subs = {
            0: lambda: inner_xn(),
            1: lambda a: inner_xn(a),
            2: lambda a, b: inner_xn(a, b),
            3: lambda a, b, c_: inner_xn(a, b, c_),
            4: lambda a, b, c_, d_: inner_xn(a, b, c_, d_),
        }
        arity = (1 if (sel[0] != "root" and dbg is None and not cfg.setup_call) else 0) + len(deps[wrapped])
        sub_fn = subs[arity]
        if wrapped in act and c.choose(2, "inner_flag"):
            # the flag enters the nested DAG as an argument and is applied (indexed or not) to the node inside it
            inner_flag = True
            pick = (lambda f: f[0]) if act_indexed else (lambda f: f)
            sub_fn = {
                0: lambda f: inner_xn(twz_active=pick(f)),
                1: lambda a, f: inner_xn(a, twz_active=pick(f)),
                2: lambda a, b, f: inner_xn(a, b, twz_active=pick(f)),
                3: lambda a, b, c_, f: inner_xn(a, b, c_, twz_active=pick(f)),
                4: lambda a, b, c_, d_, f: inner_xn(a, b, c_, d_, twz_active=pick(f)),
            }[arity]
            c.cover("w_inner_flag")
        sub_fn.__name__ = sub_fn.__qualname__ = "sub"
        callers[wrapped] = dag(sub_fn)
    kwname = "kw"

    def call_shape(l: str, x: Any, r: Dict[str, Any]) -> Tuple[List[Any], Dict[str, Any]]:
        args: List[Any] = [x] if (root_takes_input or deps[l]) and root_takes_input else []
        ds = [r[d] for d in deps[l]]
        kw: Dict[str, Any] = {}
        if cfg.kwargs and ds and l != wrapped:  # (a nested DAG takes positional arguments only)
            kw[kwname] = ds.pop()
        return args + ds, kw

    def describe(x: Any) -> Any:
        r: Dict[str, Any] = {}
        for l in labels:
            args, kw = call_shape(l, x, r)
            if l in act:
                flag = FLAG_CONSTS[act[l]] if act[l] in FLAG_CONSTS else (x if act[l] == "IN" else r[act[l]])
                if l == wrapped and inner_flag:
                    args = args + [flag]
                else:
                    kw["twz_active"] = flag[0] if act_indexed else flag
            r[l] = callers[l](*args, **kw)
        return tuple(r[l] for l in labels)

    describe.__qualname__ = describe.__name__ = "pipe"
    pipe = dag(describe, max_concurrency=mc0, is_async=(flavour == "a"))
    ids = {l: ("sub." + l if l == wrapped else l) for l in labels}  # node ids (a nested node carries the dotted prefix)
    if do_warm and sel[0] == "whole":
        # one earlier, unmonitored call under the build-time configuration: whatever it caches must not survive the
        # reconfiguration below
        warm[0] = True
        try:
            wx = c.val("x_warmup")
            w0 = E.World(c, None)  # same environment model, no monitors
            w0.deterministic = True  # every wait finishes everything it waits for: one schedule is enough here
            with E.Patched(w0):
                if flavour == "a":
                    w0.drive(pipe(wx))
                else:
                    pipe(wx)
        finally:
            warm[0] = False
        c.cover("w_warmup")
    if route == "a":
        pipe.max_concurrency = mc
    elif route == "c":
        pipe.config_from_dict({"nodes": {ids[l]: {"priority": prio[l], "is_sequential": seq[l]} for l in labels},
                               "max_concurrency": mc})
    elif route == "p":
        pipe.config_from_dict({"nodes": {ids[l]: {"priority": prio[l]} for l in labels}, "max_concurrency": mc})
    elif route == "t":
        pipe.config_from_dict({"nodes": {"g": {"priority": shared}}, "max_concurrency": mc})
    elif route == "s":
        pipe.config_from_dict({"nodes": {"g": {"is_sequential": shared_seq}}, "max_concurrency": mc})
    elif route == "k":
        # the DAG that runs is derived with compose(): same inputs, every node an output, the limit passed to compose()
        pipe = pipe.compose("pipe_k", ..., [xns[l] for l in labels], is_async=(flavour == "a"), max_concurrency=mc)

    from tawazi import cfg as twz_cfg

    saved_run_debug = twz_cfg.RUN_DEBUG_NODES
    twz_cfg.RUN_DEBUG_NODES = dbg is not None
    try:
        if cfg.setup_call:
            selkw = {} if sel[0] == "whole" else {sel[0] + "_nodes": [ids[sel[1]]]}

            def call(_x: Any) -> Any:
                return pipe.setup(**selkw)
        else:
            call = pipe if sel[0] == "whole" else pipe.executor(**{sel[0] + "_nodes": [ids[sel[1]]]})
    finally:
        twz_cfg.RUN_DEBUG_NODES = saved_run_debug
    if cfg.failed_before and not cfg.setup_call and c.choose(2, "failed_before"):
        # the executor that is monitored below already had a run in which a node failed: the second run schedules its
        # complete selection again, under the same priorities, limit and flags
        if sel[0] == "whole":
            twz_cfg.RUN_DEBUG_NODES = dbg is not None
            try:
                call = pipe.executor()
            finally:
                twz_cfg.RUN_DEBUG_NODES = saved_run_debug
        warm[0] = True
        warmfail[0] = labels[c.choose(len(labels), "failed_before_node")]
        first_failed = False
        try:
            w0 = E.World(c, None)
            w0.deterministic = True
            twz_cfg.RUN_DEBUG_NODES = dbg is not None
            with E.Patched(w0):
                try:
                    if flavour == "a":
                        w0.drive(call(c.val("x_failed_before")))
                    else:
                        call(c.val("x_failed_before"))
                except SXControl:
                    raise
                except BaseException:
                    first_failed = True
        finally:
            warm[0] = False
            warmfail[0] = None
            twz_cfg.RUN_DEBUG_NODES = saved_run_debug
        c.assume(first_failed)  # (the chosen node was outside the selection or deactivated: an executor that succeeded refuses a second run)
        c.cover("w_failed_before")
    if dbg is not None:
        # debug rules aside (C13 owns them): which debug nodes accompany a selection is read off the graph
        if sel[0] != "whole":
            exec_set = {l for l in labels if ids[l] in call.graph.nodes}
            spec["exec_set"] = exec_set
            if dbg in exec_set:
                c.cover("w_debug_in_subgraph")

    # ---- reference: the same program evaluated as plain Python
    X = c.val("x")
    ref: Dict[str, Any] = {}
    for l in labels:
        args, kw = call_shape(l, X, ref)
        active = True
        if l in act:
            flag = FLAG_CONSTS[act[l]] if act[l] in FLAG_CONSTS else (X if act[l] == "IN" else ref[act[l]])
            if act_indexed and flag is not None:
                flag = flag[0]
            active = bool(flag) if flag is not None else False
        spec["active"][l] = active
        if l not in exec_set or not active:
            ref[l] = None
            if l in exec_set and not active:
                c.cover("w_deactivated")
            continue
        spec["ref_args"][l] = (args, kw)
        ref[l] = SymVal(vapp("f_" + l, [lift(a) for a in args] + [lift(v) for v in kw.values()]))
        spec["ref_val"][l] = ref[l]
    expected_run = {l for l in labels if l in exec_set and spec["active"][l]}
    want = tuple(ref[l] for l in labels)

    # ---- run the real scheduler in the model environment
    outcome: Tuple[str, Any]
    profiling = bool(cfg.profiling and c.choose(2, "profiling"))
    saved_profiling = twz_cfg.TAWAZI_PROFILE_ALL_NODES
    twz_cfg.TAWAZI_PROFILE_ALL_NODES = profiling
    if real_schedule is not None:
        from sx import realenv

        patched: Any = realenv.RealPatched(world)
    else:
        patched = E.Patched(world)
    with patched:
        E.watch(world)
        twz_cfg.RUN_DEBUG_NODES = dbg is not None
        try:
            if flavour == "a" and real_schedule is not None:
                import asyncio as _aio

                async def _main() -> Any:
                    try:
                        return await call(X)
                    finally:
                        await _aio.sleep(0.05)  # the caller's event loop keeps running after the call

                got = _aio.run(_main())
            elif flavour == "a":
                got = world.drive(call(X))
            else:
                got = call(X)
            outcome = ("returned", got)
        except SXControl as e:
            if isinstance(e, E.Spin):
                E.watch(None)
                mon.chk("C09", False, "scheduler does not make progress: %s" % e)
                raise E.HarnessError("spin outside C09 harness: %s" % e)
            raise
        except BaseException as e:
            outcome = ("raised", e)
        finally:
            try:
                if real_schedule is not None:
                    pass
                elif flavour == "a":
                    # an AsyncDAG runs in the caller's event loop, which keeps running after the call returned or
                    # raised: tasks created by ensure_future that were neither started nor cancelled start now
                    world.start_pending_tasks()
                else:
                    # asyncio.run() cancels what is still pending when the coroutine is done
                    for t in list(world.pending_tasks):
                        t.cancel()
            finally:
                E.watch(None)
            twz_cfg.TAWAZI_PROFILE_ALL_NODES = saved_profiling
            twz_cfg.RUN_DEBUG_NODES = saved_run_debug

    # ---- end-of-call assertions
    if outcome[0] == "returned":
        mon.chk("C14", not mon.failed, "call returned normally although node(s) %s failed" % mon.failed)
        mon.chk("C09", set(mon.started) >= expected_run,
                "call returned although selected active nodes %s never ran" % sorted(expected_run - set(mon.started)))
        mon.chk("C03", set(mon.started) == expected_run and len(mon.started) == len(set(mon.started)),
                "set of executed nodes %s differs from the selected active set %s" % (mon.started, sorted(expected_run)))
        if cfg.setup_call:
            stored = tuple(pipe.results.get(ids[l]) if l in expected_run else None for l in labels)
            mon.chk("C02", veq(stored, want), "setup results stored by DAG.setup differ from the plain-Python evaluation", {"got": stored, "want": want})
            c.cover("w_setup_call")
        elif not mon.failed:
            mon.chk("C01", veq(outcome[1], want), "returned value differs from the plain-Python evaluation",
                    {"got": outcome[1], "want": want})
        c.cover("w_returned")
    else:
        e = outcome[1]
        named = None
        if mon.failed:
            ok = False
            if isinstance(e, TawaziBaseException) and isinstance(e.__cause__, E.InjectedFault):
                named = e.__cause__.label
                ok = named in mon.failed and ids[named] in str(e) and ".py:" in str(e)
            elif isinstance(e, E.InjectedFault):
                # allowed only when no call location is known; the harness always has one
                ok = False
            mon.chk("C14", ok, "failure of %s surfaced as %r (cause %r)" % (mon.failed, e, getattr(e, "__cause__", None)))
            c.cover("w_raised_fault")
        else:
            mon.chk("C14", False, "call raised %r although no node failed (internal scheduler error)" % (e,))
            mon.chk("C01", False, "call raised %r where the plain-Python evaluation returns a value" % (e,))
            mon.chk("C17", False, "call raised %r where the plain-Python evaluation returns a value" % (e,))
            mon.chk("C09", False, "call raised %r although no node failed" % (e,))
            raise E.HarnessError("unexpected exception without C14/C09 monitor: %r" % (e,))
    c.cover("transitions", None)
    c.coverage["transitions"] = c.coverage.get("transitions", 0) + world.events - 1
    if mon.max_inflight >= 2:
        c.cover("w_parallel")
    if getattr(world, "control", None) is not None:
        raise world.control  # a violation found by a monitor running on a worker thread
    if cfg.twin:
        c.check(False, "reachability twin: the end of the harness is reachable", prop="TWIN")
    return {"deps": alldeps, "res": res, "sel": sel, "flavour": flavour, "route": route, "trace": list(world.trace), "outcome": outcome[0],
            "choices": {k: list(v) for k, v in c.choices.items()}}


def schedule_of(trace: List[Any]) -> List[Tuple[str, List[str]]]:
    return [(ev[1], list(ev[2])) for ev in trace if ev and ev[0] == "finish"]


def canonical(trace: List[Any]) -> List[Any]:
    """Projection of an event trace that must be identical on the model and on the real pool."""
    out = []
    for ev in trace:
        if ev[0] == "enter":
            out.append(("enter", ev[1], ev[2]))
        elif ev[0] == "wait":
            out.append(("wait", ev[1], ev[2], tuple(sorted(x for x in ev[3] if x)), tuple(sorted(x for x in ev[4] if x))))
        elif ev[0] == "finish":
            out.append(("finish", ev[1], tuple(sorted(ev[2]))))
    return [list(map(lambda v: list(v) if isinstance(v, tuple) else v, e)) for e in out]


def replay_real(cfg: Cfg, record: Dict[str, Any], timeout_s: float = 60.0) -> Dict[str, Any]:
    """Run the recorded path on the real ThreadPoolExecutor / event loop in a process of its own: real worker threads
    and the solver's reference counting must not share a process with the exploration (a crash or hang there is
    reported as status 'error' / 'timeout', never as a verdict)."""
    import json
    import os
    import subprocess
    import sys

    root = os.path.dirname(os.path.dirname(os.path.abspath(__file__)))
    payload = json.dumps({"cfg": dataclasses.asdict(cfg), "record": {k: record.get(k) for k in ("model", "choices", "notes", "trace", "property")}})
    try:
        p = subprocess.run([sys.executable, "-c", "import sys; sys.path.insert(0, %r); from harness.sched import _replay_main; _replay_main()" % root],
                           input=payload, capture_output=True, text=True, timeout=timeout_s + 30, cwd=root)
    except subprocess.TimeoutExpired:
        return {"status": "timeout", "trace": []}
    for line in reversed(p.stdout.splitlines()):
        if line.startswith("REPLAY-RESULT "):
            return json.loads(line[len("REPLAY-RESULT "):])
    return {"status": "error", "trace": [], "error": "replay process exited with %s: %s" % (p.returncode, (p.stderr or p.stdout)[-300:])}


def _replay_main() -> None:
    import json
    import sys

    from sx.engine import _jsonable

    d = json.load(sys.stdin)
    c = d["cfg"]
    c["monitors"] = tuple(c["monitors"])
    res = replay_real_inprocess(Cfg(**c), d["record"])
    print("REPLAY-RESULT " + json.dumps(_jsonable(res)))
    sys.stdout.flush()
    import os

    os._exit(0)  # worker threads of an aborted replay must not keep the process alive


def replay_real_inprocess(cfg: Cfg, record: Dict[str, Any], timeout_s: float = 40.0) -> Dict[str, Any]:
    """Run the recorded path on the real ThreadPoolExecutor / event loop (see sx/realenv.py)."""
    import functools
    import threading

    from sx import engine

    trace = record.get("notes") or record.get("trace") or []
    REAL["schedule"] = schedule_of([tuple(e) for e in trace])
    REAL["world"] = None
    box: Dict[str, Any] = {}

    def run() -> None:
        box["out"] = engine.replay(functools.partial(run_sched, cfg), record)

    t = threading.Thread(target=run, daemon=True)
    try:
        t.start()
        t.join(timeout_s)
        w = REAL.get("world")
        if t.is_alive():
            if w is not None:
                w.release_all()
            t.join(5)
            return {"status": "timeout", "trace": canonical(list(w.trace)) if w is not None else []}
        out = box.get("out", {})
        res = {"status": "reproduced" if out.get("reproduced") else ("diverged" if out.get("error") else "completed"),
               "violation": (out.get("violation") or {}).get("msg"), "error": out.get("error"),
               "trace": canonical(list(w.trace)) if w is not None else []}
        return res
    finally:
        REAL["schedule"] = None
        REAL["world"] = None



def _zi(x: Any) -> Any:
    if isinstance(x, SInt):
        return x.z
    return z3.IntVal(int(x))
