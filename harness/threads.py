"""C16 (thread safety at the granularity of node entries / describing-function statements) and the
concurrent-awaits part of C17.

C16a: two real threads call one DAG instance with different symbolic arguments; every node entry is a
      gate, and the order in which the two threads pass their gates is solver-chosen (all alternations
      are explored).  Each thread must get the term for its own arguments and the instance must be
      unchanged.
C16b: a real thread A builds a DAG and pauses at a solver-chosen statement of its describing function;
      a second thread B performs a solver-chosen operation (call an existing DAG, call a decorated
      function outside any DAG, build another DAG).  B's outcome must equal what it yields with no
      build in progress, A's node table must equal the sequentially built one.
C17b: k coroutines await one AsyncDAG (async-thread nodes) in one loop model; which suspended
      coroutine resumes and which futures finish are solver-chosen; each await gets its own result.
Interleavings inside a single bytecode window are outside the claim.
"""
from __future__ import annotations

import dataclasses
import sys
import threading
import time
from typing import Any, Callable, Dict, List, Optional, Tuple

from harness.common import watchdog
from sx import env as E
from sx.engine import Ctx, SXControl, SymVal, lift, vapp, veq


@dataclasses.dataclass(frozen=True)
class TCfg:
    mode: str = "calls"  # calls | build | awaits
    threads: int = 2
    N: int = 3
    setup: bool = True
    twin: bool = False  # reachability twin: the harness ends with check(False), which must come back violated


SHAPES = (
    {"n0": [], "n1": ["n0"], "n2": ["n1"]},  # chain
    {"n0": [], "n1": [], "n2": ["n0", "n1"]},  # fan-in
    {"n0": [], "n1": ["n0"], "n2": ["n0", "n1"]},  # diamond-ish
)


def _named(f: Any, name: str) -> Any:
    f.__name__ = f.__qualname__ = name
    return f


class Gates:
    """Cooperative scheduling of real threads: a thread blocks at every gate until the controller picks it."""

    def __init__(self) -> None:
        self.cv = threading.Condition()
        self.state: Dict[int, str] = {}  # tid -> running | waiting | done
        self.go: Dict[int, bool] = {}
        self.error: Dict[int, BaseException] = {}

    def gate(self, tid: int) -> None:
        with self.cv:
            self.state[tid] = "waiting"
            self.cv.notify_all()
            while not self.go.get(tid):
                self.cv.wait()
            self.go[tid] = False
            self.state[tid] = "running"

    def finish(self, tid: int) -> None:
        with self.cv:
            self.state[tid] = "done"
            self.cv.notify_all()

    def settle(self) -> None:
        """Wait until no thread is running (all are at a gate or done)."""
        with self.cv:
            while any(s == "running" for s in self.state.values()):
                if not self.cv.wait(timeout=20):
                    raise E.HarnessError("a thread neither reached a gate nor finished within 20 s")

    def release(self, tid: int) -> None:
        with self.cv:
            self.state[tid] = "running"
            self.go[tid] = True
            self.cv.notify_all()

    def waiting(self) -> List[int]:
        with self.cv:
            return sorted(t for t, s in self.state.items() if s == "waiting")


def _snapshot(d: Any) -> Any:
    nodes = {}
    for i, x in d.exec_nodes.items():
        nodes[i] = (type(x).__name__, [(u.id, tuple(u.key)) for u in x.args], {k: (u.id, tuple(u.key)) for k, u in x.kwargs.items()},
                    None if x.active is None else (x.active.id, tuple(x.active.key)))
    return nodes, sorted(d.results.keys()), sorted(d.graph_ids.nodes), sorted(d.graph_ids.edges)


@watchdog(lambda cfg: "C16" if cfg.mode != "awaits" else "C17")
def run_threads(cfg: TCfg, c: Ctx) -> Any:
    if cfg.mode == "calls":
        out = _run_calls(cfg, c)
    elif cfg.mode == "build":
        out = _run_build(cfg, c)
    else:
        out = _run_awaits(cfg, c)
    if cfg.twin:
        c.check(False, "reachability twin: the end of the harness is reachable", prop="TWIN")
    return out


# ------------------------------------------------------------------------------------------------ C16a
def _run_calls(cfg: TCfg, c: Ctx) -> Any:
    from tawazi import Resource, dag, xn

    shape = SHAPES[c.choose(len(SHAPES), "shape")]
    labels = sorted(shape)
    setup0 = bool(cfg.setup and c.choose(2, "setup"))
    defaulted = bool(c.choose(2, "default_param"))
    c.heavy()
    gates = Gates()
    tls = threading.local()

    def make(l: str) -> Any:
        def fn(*args):  # type: ignore[no-untyped-def]
            tid = getattr(tls, "tid", None)
            if tid is not None:
                gates.gate(tid)
            return SymVal(vapp("f_" + l, [lift(a) for a in args]))

        fn.__name__ = fn.__qualname__ = l
        return fn

    fns = {l: make(l) for l in labels}
    xns = {l: xn(fns[l], setup=(setup0 and l == "n0"), resource=Resource.main_thread) for l in labels}

    def body(F: Dict[str, Any], x: Any, y: Any) -> Any:
        r: Dict[str, Any] = {}
        for l in labels:
            args = ([7] if (setup0 and l == "n0") else ([x, y] if not shape[l] else [x])) + [r[d] for d in shape[l]]
            r[l] = F[l](*args)
        return tuple(r[l] for l in labels)

    if defaulted:
        def pipe(x, y=11):  # type: ignore[no-untyped-def]
            return body(xns, x, y)
    else:
        def pipe(x, y):  # type: ignore[no-untyped-def]
            return body(xns, x, y)
    pipe.__qualname__ = pipe.__name__ = "pipe"
    d = dag(pipe)
    if setup0:
        d.setup()  # the property: concurrent calls after the setup nodes have run
    snap = _snapshot(d)
    results: Dict[int, Any] = {}
    args_of: Dict[int, Tuple[Any, ...]] = {}

    def worker(tid: int) -> None:
        tls.tid = tid
        gates.gate(tid)
        try:
            results[tid] = ("value", d(*args_of[tid]))
        except SXControl as e:  # engine control flow must reach the harness thread
            results[tid] = ("control", e)
        except BaseException as e:
            results[tid] = ("raise", e)
        finally:
            gates.finish(tid)

    threads = []
    for tid in range(cfg.threads):
        X, Y = c.val("x%d" % tid), c.val("y%d" % tid)
        args_of[tid] = (X,) if (defaulted and tid % 2 == 0) else (X, Y)
        gates.state[tid] = "running"
        t = threading.Thread(target=worker, args=(tid,), daemon=True)
        threads.append(t)
        t.start()
    order: List[int] = []
    while True:
        gates.settle()
        w = gates.waiting()
        if not w:
            break
        pick = w[c.choose(len(w), "turn")] if len(w) > 1 else w[0]
        order.append(pick)
        gates.release(pick)
    for t in threads:
        t.join(20)
    data = {"shape": shape, "setup0": setup0, "defaulted": defaulted, "order": order}
    for tid in range(cfg.threads):
        kind, val = results[tid]
        if kind == "control":
            raise val
        a = args_of[tid]
        want = body(fns, a[0], a[1] if len(a) > 1 else 11)
        c.check(kind == "value", "thread %d: the call raised %r" % (tid, val), prop="C16", data=data)
        c.check(veq(val, want), "thread %d did not receive the result for its own arguments" % tid, prop="C16", data={**data, "got": val, "want": want})
    c.check(_snapshot(d) == snap, "concurrent calls changed the DAG instance (node table / results / graph)", prop="C16", data=data)
    if len(set(order[: len(order) // 2])) > 1:
        c.cover("w_interleaved")
    c.cover("states", hash((repr(shape), setup0, defaulted, tuple(order))))
    return data


# ------------------------------------------------------------------------------------------------ C16b
def _wait_blocked_or_done(t: threading.Thread, func_names: Tuple[str, ...], done: Callable[[], bool]) -> str:
    """Poll until thread t has finished its operation or sits (twice in a row) inside one of func_names."""
    seen = 0
    t0 = time.time()
    for _ in range(4000):
        if done():
            return "done"
        if time.time() - t0 > 2.5:
            return "blocked-elsewhere"  # neither finished nor waiting for the build lock
        fr = sys._current_frames().get(t.ident)  # type: ignore[arg-type]
        inside = False
        while fr is not None:
            if fr.f_code.co_name in func_names:
                inside = True
                break
            fr = fr.f_back
        seen = seen + 1 if inside else 0
        if seen >= 3:
            return "blocked"
        time.sleep(0.002)
    raise E.HarnessError("thread B neither finished nor reached the build lock")


LONG_PAUSE_S = 6.5


def _run_build(cfg: TCfg, c: Ctx) -> Any:
    from tawazi import Resource, cfg as twz_cfg, dag, xn
    from tawazi.errors import TawaziBaseException

    K = 3  # statements in A's describing function
    pause_at = c.choose(K + 1, "pause")  # before statement i (K = after the last one)
    op = ("call_dag", "call_xn_ignore", "call_xn_error", "build", "call_dag_default")[c.choose(5, "op")]
    # how the other thread relates to the builder: independent / same thread name / started by the builder's describing
    # function with a copy of its context (as asyncio.to_thread and the async-thread resource do)
    relation = ("independent", "same-name", "inherits-context")[c.choose(3, "relation")]
    nested_a = bool(c.choose(2, "a_nests"))  # the last statement of A's describing function calls another DAG (embeds it)
    c.heavy()
    fns = {l: (lambda l: (lambda *a: SymVal(vapp("f_" + l, [lift(v) for v in a]))))(l) for l in ("a0", "a1", "a2", "e0", "e1", "b0", "b1", "solo", "i0", "i1")}
    for l, f in fns.items():
        f.__name__ = f.__qualname__ = l
    xns = {l: xn(f, resource=Resource.main_thread) for l, f in fns.items()}

    # an existing DAG
    es = xn(_named(lambda *a: SymVal(vapp("f_es", [lift(v) for v in a])), "es"), setup=True, resource=Resource.main_thread)

    def existing(x, y=11):  # type: ignore[no-untyped-def]
        return xns["e1"](xns["e0"](x, y), es(7))

    existing.__qualname__ = existing.__name__ = "existing"
    e = dag(existing)
    e.setup()  # (the property: shared DAGs are used after their setup nodes have run)

    def inner(x):  # type: ignore[no-untyped-def]
        return xns["i1"](xns["i0"](x), 5)

    inner.__qualname__ = inner.__name__ = "inner"
    inner_d = dag(inner)
    paused, resume = threading.Event(), threading.Event()

    def pause_point() -> None:
        if relation == "inherits-context":
            import contextvars

            ctx = contextvars.copy_context()
            tb_box.append(threading.Thread(target=ctx.run, args=(thread_b,), daemon=True, name="worker-b"))
            tb_box[0].start()
        paused.set()
        resume.wait(20)

    def describe_a(x):  # type: ignore[no-untyped-def]
        vals = [x]
        for i in range(K):
            if i == pause_at and pausing[0]:
                pause_point()
            vals.append(inner_d(vals[-1]) if (nested_a and i == K - 1) else xns["a%d" % i](vals[-1], i))
        if pause_at == K and pausing[0]:
            pause_point()
        return vals[-1]

    describe_a.__qualname__ = describe_a.__name__ = "pipe_a"

    def describe_b(x):  # type: ignore[no-untyped-def]
        return xns["b1"](xns["b0"](x), x)

    describe_b.__qualname__ = describe_b.__name__ = "pipe_b"
    pausing = [False]
    tb_box: List[threading.Thread] = []
    ref_a = _snapshot(dag(describe_a))
    ref_b = _snapshot(dag(describe_b))
    Y = c.val("y")

    def do_op() -> Any:
        if op == "call_dag":
            return e(Y, 3)
        if op == "call_dag_default":
            return e(Y)
        if op == "build":
            return _snapshot(dag(describe_b))
        saved = twz_cfg.TAWAZI_EXECNODE_OUTSIDE_DAG_BEHAVIOR
        twz_cfg.TAWAZI_EXECNODE_OUTSIDE_DAG_BEHAVIOR = "ignore" if op == "call_xn_ignore" else "error"
        try:
            return xns["solo"](Y, 1)
        finally:
            twz_cfg.TAWAZI_EXECNODE_OUTSIDE_DAG_BEHAVIOR = saved

    def outcome(f: Callable[[], Any]) -> Tuple[str, Any]:
        try:
            return ("value", f())
        except SXControl:
            raise
        except TawaziBaseException as ex:
            return ("raise", type(ex).__name__)
        except BaseException as ex:
            return ("raise", repr(ex))

    want_b = outcome(do_op)  # with no build in progress
    # ---- now with A building and paused
    pausing[0] = True
    out: Dict[str, Any] = {}

    def thread_a() -> None:
        out["a"] = outcome(lambda: _snapshot(dag(describe_a)))

    b_failed_before = bool(relation != "inherits-context" and c.choose(2, "b_failed_build_before"))

    def thread_b() -> None:
        if b_failed_before:
            # an earlier description in this thread failed (its describing function raised): nothing of it may linger
            def broken(x):  # type: ignore[no-untyped-def]
                xns["b0"](x)
                raise RuntimeError("describing function failed")

            broken.__qualname__ = broken.__name__ = "broken"
            try:
                dag(broken)
            except RuntimeError:
                pass
        b_ready.set()
        b_go.wait(20)
        out["b"] = outcome(do_op)

    b_ready, b_go = threading.Event(), threading.Event()
    if relation == "inherits-context":
        b_go.set()
    else:
        # thread B exists before A starts to build (and may already have a failed description behind it)
        tb = threading.Thread(target=thread_b, daemon=True, name="worker" if relation == "same-name" else "worker-b")
        tb.start()
        if not b_ready.wait(20):
            raise E.HarnessError("thread B did not get ready")
    ta = threading.Thread(target=thread_a, daemon=True, name="worker")
    ta.start()
    if not paused.wait(20):
        raise E.HarnessError("builder thread did not reach its pause point")
    if relation == "inherits-context":
        tb = tb_box[0]
    b_go.set()
    status = _wait_blocked_or_done(tb, ("threadsafe_make_dag",), lambda: "b" in out)
    if op == "build" and relation == "independent" and pause_at == 1 and not nested_a and not b_failed_before and c.choose(2, "long_pause"):
        # the first build stays in its describing function for a while (an import, a download): the second one simply waits
        time.sleep(LONG_PAUSE_S)
        c.cover("w_long_pause")
    resume.set()
    ta.join(20)
    tb.join(20)
    if ta.is_alive() or tb.is_alive():
        raise E.HarnessError("threads did not finish")
    data = {"pause_at": pause_at, "op": op, "relation": relation, "b_status_while_a_paused": status}
    if op == "build":
        c.check(status == "blocked", "a second build ran to completion while another thread was still describing its DAG (builds must serialise)", prop="C16", data=data)
    else:
        c.check(status == "done", "a call in another thread blocked until the build finished", prop="C16", data=data)
    c.check(out["a"][0] == "value" and out["a"][1] == ref_a, "the DAG built while another thread was active differs from the sequentially built one: %r" % (out["a"],),
            prop="C16", data=data)
    gb, wb = out["b"], want_b
    same = gb[0] == wb[0] and (gb[1] == wb[1] if (gb[0] == "raise" or op == "build") else None)
    if same is None:
        same = veq(gb[1], wb[1])
    c.check(same, "operation %s in thread B behaved differently while a build was in progress: %r instead of %r" % (op, gb, wb), prop="C16", data=data)
    if op == "build":
        c.check(gb[0] == "value" and gb[1] == ref_b, "the concurrently built second DAG differs from the sequentially built one", prop="C16", data=data)
    # the existing DAG still works and is unchanged
    c.check(veq(e(Y, 3), xns["e1"].exec_function(xns["e0"].exec_function(Y, 3), es.exec_function(7))), "existing DAG changed behaviour after a concurrent build", prop="C16", data=data)
    c.cover("states", hash((pause_at, op, relation)))
    c.cover("w_" + op)
    return data


# ------------------------------------------------------------------------------------------------ C17b
class _Suspend:
    def __await__(self) -> Any:
        yield self


def _run_awaits(cfg: TCfg, c: Ctx) -> Any:
    from tawazi import Resource, dag, xn

    shape = SHAPES[c.choose(len(SHAPES), "shape")]
    labels = sorted(shape)
    setup0 = bool(cfg.setup and c.choose(2, "setup"))
    presetup = bool(setup0 and c.choose(2, "presetup"))
    nthread = c.choose(2, "one_thread_node")  # one node may use the thread resource instead of async-thread
    mc = 1 + c.choose(3, "mc")
    c.heavy()
    world = E.World(c, None)
    entered: List[str] = []

    def make(l: str) -> Any:
        def fn(*args):  # type: ignore[no-untyped-def]
            entered.append(l)
            return SymVal(vapp("f_" + l, [lift(a) for a in args]))

        fn.__name__ = fn.__qualname__ = l
        return fn

    fns = {l: make(l) for l in labels}
    res = {l: (Resource.thread if (nthread and l == "n1") else Resource.async_thread) for l in labels}
    xns = {l: xn(fns[l], setup=(setup0 and l == "n0"), resource=res[l]) for l in labels}

    def body(F: Dict[str, Any], x: Any) -> Any:
        r: Dict[str, Any] = {}
        for l in labels:
            args = ([7] if (setup0 and l == "n0") else [x]) + [r[d] for d in shape[l]]
            r[l] = F[l](*args)
        return tuple(r[l] for l in labels)

    def pipe(x):  # type: ignore[no-untyped-def]
        return body(xns, x)

    pipe.__qualname__ = pipe.__name__ = "pipe"
    d = dag(pipe, max_concurrency=mc, is_async=True)
    k = cfg.threads
    data = {"shape": shape, "setup0": setup0, "presetup": presetup, "awaits": k, "mc": mc, "thread_node": bool(nthread)}
    coros: List[Any] = []
    with E.Patched(world):
        E.watch(world)
        try:
            if presetup:
                world.drive(d.setup())
            world.suspend = lambda: _Suspend()
            Xs = [c.val("x%d" % i) for i in range(k)]
            coros = [d(X) for X in Xs]
            state: Dict[int, Any] = {}
            live = list(range(k))
            order: List[int] = []
            while live:
                i = live[c.choose(len(live), "resume")] if len(live) > 1 else live[0]
                order.append(i)
                try:
                    y = coros[i].send(None)
                    if not isinstance(y, _Suspend):
                        raise E.HarnessError("coroutine suspended on %r" % (y,))
                except StopIteration as e:
                    state[i] = ("value", e.value)
                    live.remove(i)
                except SXControl:
                    raise
                except BaseException as e:
                    state[i] = ("raise", e)
                    live.remove(i)
        finally:
            E.watch(None)
            for co in coros:
                co.close()
    entered_total = list(entered)
    for i in range(k):
        kind, val = state[i]
        saved = list(entered)
        want = body(fns, Xs[i])
        entered[:] = saved
        c.check(kind == "value", "await #%d raised %r" % (i, val), prop="C17", data={**data, "order": order})
        c.check(veq(val, want), "await #%d did not get the result for its own arguments" % i, prop="C17", data={**data, "order": order, "got": val, "want": want})
    if presetup:
        c.check(entered_total.count("n0") == 1, "setup node ran %d times although setup() had completed before the awaits" % entered_total.count("n0"),
                prop="C17", data=data)
    if len(order) > k and len(set(order[:k])) > 1:
        c.cover("w_interleaved")
    c.cover("states", hash((repr(data), tuple(order))))
    return {**data, "order": order}
