"""Graph-algebra harnesses: compound priority (C07), selection closure (C12), debug gating (C13).

The real code (DiGraphEx.from_exec_nodes / assign_compound_priority / make_subgraph /
extend_graph_with_debug_nodes / include_debug_nodes, BaseDAG.alias_to_ids / config_from_dict,
DAGExecution) runs on programs built through the public API; shapes, labelings, selections, alias
forms and debug placements are solver-chosen, priorities and node values symbolic.  z3 decides the
equalities with the reference specification.
"""
from __future__ import annotations

import dataclasses
import math
from typing import Any, Dict, List, Optional, Set, Tuple

import z3

from harness.common import watchdog, Counter, closure, perms, selection_spec, term_fn
from sx.engine import Ctx, SInt, SXControl, SymVal, lift, vapp, veq


def _zi(x: Any) -> Any:
    z = getattr(x, "z", None)
    if z is not None:
        return z
    return z3.IntVal(int(x))


@dataclasses.dataclass(frozen=True)
class GCfg:
    N: int = 3
    relabel: bool = True
    debug: bool = False
    selection: bool = True
    setup: bool = False
    reconf: bool = True
    activation: bool = False
    rebuild: bool = False
    indexed: bool = False
    combined: bool = False
    # fixed shapes instead of every shape on N nodes: each shape lists the indices of the dependencies of node i
    fixed_shapes: Tuple[Tuple[Tuple[int, ...], ...], ...] = ()
    flavours: str = "s"  # run_c13: s(ync) DAG / a(sync) AsyncDAG
    failed_before: bool = False  # run_c13: the executor may have had an earlier failing run under the opposite debug setting
    twin: bool = False  # reachability twin: the harness ends with check(False), which must come back violated


def _sync(r: Any) -> Any:
    """Result of an operation of either flavour."""
    if hasattr(r, "__await__"):
        import asyncio

        async def w() -> Any:
            return await r

        return asyncio.run(w())
    return r


def _edges(c: Ctx, names: List[str], cfg: Optional[GCfg] = None) -> Dict[str, List[str]]:
    deps: Dict[str, List[str]] = {n: [] for n in names}
    fixed = None
    if cfg is not None and cfg.fixed_shapes:
        fixed = cfg.fixed_shapes[c.choose(len(cfg.fixed_shapes), "shape")] if len(cfg.fixed_shapes) > 1 else cfg.fixed_shapes[0]
    for i in range(len(names)):
        for j in range(i):
            if (j in fixed[i]) if fixed is not None else c.choose(2, "edge"):
                deps[names[i]].append(names[j])
    return deps


# ------------------------------------------------------------------------------------------------ C07
@watchdog(lambda cfg: "C07")
def run_c07(cfg: GCfg, c: Ctx) -> Any:
    from tawazi import Resource, cfg as twz_cfg, dag, xn

    N = cfg.N
    perm = perms(N)[c.choose(math.factorial(N), "perm")] if cfg.relabel else tuple(range(N))
    names = ["n%d" % perm[i] for i in range(N)]  # name of the node at topological position i
    deps = _edges(c, names)
    desc, anc = closure(names, deps)
    dbg: Set[str] = set()
    if cfg.debug:
        k = c.choose(N + 1, "dbg")
        if k:
            d = names[k - 1]
            c.assume(not desc[d])
            dbg.add(d)
    c.heavy()
    prio = {n: c.int("p_" + n) for n in names}
    cnt = Counter()
    xns = {n: xn(term_fn(n, cnt), priority=prio[n], debug=(n in dbg), resource=Resource.main_thread, tag=("g", "t_" + n)) for n in names}

    def pipe() -> Any:
        r: Dict[str, Any] = {}
        for n in names:
            r[n] = xns[n](*[r[d] for d in deps[n]])
        return tuple(r[n] for n in names)

    d = dag(pipe)

    def cp_def(p: Dict[str, Any]) -> Dict[str, Any]:
        return {n: _zi(p[n]) + z3.Sum([_zi(p[m]) for m in sorted(desc[n])] + [z3.IntVal(0)]) for n in names}

    def check_table(table: Dict[str, Any], want: Dict[str, Any], nodes: Any, what: str) -> None:
        for n in nodes:
            got = table[n] if n in table else None
            c.check(got is not None and _zi(got) == want[n], "compound priority of %s %s is not own priority + sum over distinct descendants" % (n, what),
                    prop="C07", data={"node": n, "deps": deps, "got": got, "where": what})

    want = cp_def(prio)
    check_table(d.graph_ids.compound_priority, want, names, "after construction")
    if cfg.rebuild:
        # the same nodes handed to the DAG constructor in another insertion order (as compose() and users of the
        # class API do), and a DAG derived with compose(): the table must not depend on insertion order
        from tawazi import DAG
        from tawazi._helpers import StrictDict

        order = perms(N)[c.choose(math.factorial(N), "insertion")]
        user = [names[i] for i in order]
        ids_sorted = [i for i in d.exec_nodes if i not in names] + user
        table = StrictDict((i, d.exec_nodes[i]) for i in ids_sorted)
        d2 = DAG(qualname="rebuilt", results=StrictDict(d.results), exec_nodes=table, input_uxns=list(d.input_uxns), return_uxns=d.return_uxns)
        check_table(d2.graph_ids.compound_priority, want, names, "of a DAG built from the node table in insertion order %s" % user)
        d3 = d.compose("composed", [], [xns[n] for n in names if not desc[n]])
        check_table(d3.graph_ids.compound_priority, want, [n for n in names if n in d3.exec_nodes], "of the DAG derived with compose()")
        c.cover("w_rebuilt")
    # reconfiguration: all nodes or one node get fresh priorities
    k = c.choose(N + 4, "reconf") if cfg.reconf else 0
    cur = dict(prio)
    if k == N + 3:
        # a configuration that carries new priorities together with an unusable limit (0): whether the library refuses it
        # or not, the table the scheduler reads afterwards is the documented function of the priorities the DAG's nodes
        # now have
        newp = {n: c.int("q_" + n) for n in names}
        try:
            d.config_from_dict({"nodes": {n: {"priority": newp[n]} for n in names}, "max_concurrency": 0})
        except SXControl:
            raise
        except BaseException:
            c.cover("w_config_refused")
        d.max_concurrency = 1
        cur = {n: d.exec_nodes[n].priority for n in names}
        want = cp_def(cur)
        check_table(d.graph_ids.compound_priority, want, names, "after a config_from_dict that carried max_concurrency=0")
        c.cover("w_reconfigured_with_invalid_limit")
    elif k == N + 2:
        # one entry addressed to the tag carried by every node: all of them get the new priority
        q = c.int("q_shared")
        d.config_from_dict({"nodes": {"g": {"priority": q}}})
        cur = {n: q for n in names}
        want = cp_def(cur)
        check_table(d.graph_ids.compound_priority, want, names, "after config_from_dict through a shared tag")
        c.cover("w_reconfigured")
    elif k:
        which = names if k == N + 1 else [names[k - 1]]
        newp = {n: c.int("q_" + n) for n in which}
        d.config_from_dict({"nodes": {n: {"priority": newp[n]} for n in which}})
        cur.update(newp)
        want = cp_def(cur)
        check_table(d.graph_ids.compound_priority, want, names, "after config_from_dict")
        c.cover("w_reconfigured")
    if cfg.selection:
        k = c.choose(1 + 3 * N, "sel")
        run_dbg = bool(dbg) and bool(c.choose(2, "run_debug"))
        saved = twz_cfg.RUN_DEBUG_NODES
        twz_cfg.RUN_DEBUG_NODES = run_dbg
        try:
            if k:
                kind, x = ("target", "exclude", "root")[(k - 1) // N], names[(k - 1) % N]
                if kind == "root":
                    c.assume(not deps[x])
                ex = d.executor(**{kind + "_nodes": [x]})
                c.cover("w_subgraph")
            else:
                ex = d.executor()
            in_graph = [n for n in names if n in ex.graph.nodes]
            check_table(ex.graph.compound_priority, want, in_graph, "in the executor's graph")
            if run_dbg and any(n in dbg for n in in_graph):
                c.cover("w_debug_in_subgraph")
        finally:
            twz_cfg.RUN_DEBUG_NODES = saved
    if cfg.debug and dbg:
        # direct calls do not change the table (the run graph must not share mutable state with the DAG's graph)
        twz_cfg.RUN_DEBUG_NODES = False
        d()
        d()
        check_table(d.graph_ids.compound_priority, want, names, "after two direct calls")
    c.cover("states", hash((tuple(names), tuple(tuple(deps[n]) for n in names), tuple(sorted(dbg)))))
    if any(len(anc[n]) >= 2 and any(a in anc[b] for a in anc[n] for b in anc[n]) for n in names):
        c.cover("w_diamond")
    if cfg.twin:
        c.check(False, "reachability twin: the end of the harness is reachable", prop="TWIN")
    return {"names": names, "deps": deps, "debug": sorted(dbg)}


# ------------------------------------------------------------------------------------------------ C12
MEMBER_OPTS_CACHE: Dict[Tuple[int, str, bool], List[Any]] = {}
PAIRS_EVERYWHERE = [False]  # thorough tier: two-element lists for root_nodes / exclude_nodes as well


def member_options(N: int, role: str) -> List[Any]:
    """None (not given), [] , singletons, pairs, the shared tag 'g', and (targets only) an unknown alias."""
    key = (N, role, PAIRS_EVERYWHERE[0])
    if key not in MEMBER_OPTS_CACHE:
        labels = ["n%d" % i for i in range(N)]
        opts: List[Any] = [None, []]
        opts += [[a] for a in labels]
        if role == "T" or PAIRS_EVERYWHERE[0]:
            opts += [[labels[i], labels[j]] for i in range(N) for j in range(i + 1, N)]
        opts.append(["@g"])
        if role == "T":
            opts.append(["@zz"])
        MEMBER_OPTS_CACHE[key] = opts
    return MEMBER_OPTS_CACHE[key]


@watchdog(lambda cfg: "C12")
def run_c12(cfg: GCfg, c: Ctx) -> Any:
    from tawazi import Resource, dag, xn

    N = cfg.N
    PAIRS_EVERYWHERE[0] = cfg.combined
    labels = ["n%d" % i for i in range(N)]
    deps = _edges(c, labels, cfg)
    desc, anc = closure(labels, deps)
    const_arg = {l: (not deps[l] and bool(c.choose(2, "const"))) for l in labels}
    # one naming feature per program: alias form (reference / id / tag) x tag style - 0 tuples of tags; 1 as 0 but the
    # last node is also tagged with the id of the first one; 2 single-string tags, the last node's tag contains the id
    # of the first node and the tag of the second as substrings - or an indexed dependency (with reference aliases)
    feats = [("ref", 0, False), ("id", 0, False), ("tag", 0, False), ("id", 1, False), ("ref", 1, False), ("id", 2, False), ("tag", 2, False)]
    if cfg.indexed:
        feats.append(("ref", 0, True))
    # every member is named twice, by reference and by id; the node functions of the first and the last node are
    # functools.partial objects (a reference alias then names a node whose callable is not the decorated object itself)
    feats += [("dup", 0, False), ("partial", 0, False)]
    form, style, want_idx = feats[c.choose(len(feats), "naming")]
    dup_members = form == "dup"
    partial_fns = form == "partial"
    if form in ("dup", "partial"):
        form = "ref"
    clash = style == 1
    tags: Dict[str, Any] = {}
    for i, l in enumerate(labels):
        if style == 2:
            tags[l] = "t%d" % i if i < N - 1 else "x%s_t1y" % labels[0]
            continue
        t = ["t%d" % i]
        if i < 2:
            t.append("g")
        if clash and i == N - 1:
            t.append(labels[0])
        tags[l] = tuple(t)
    idx_dep: Optional[Tuple[str, str]] = None
    if want_idx:
        pairs = [(dd, l) for l in labels for dd in deps[l]]
        c.assume(bool(pairs))
        idx_dep = pairs[c.choose(len(pairs), "idx")]
    setup0 = bool(cfg.setup and not deps[labels[0]] and c.choose(2, "setup"))
    cnt = Counter()
    import functools

    def node_fn(l: str) -> Any:
        f = term_fn(l, cnt)
        return functools.partial(f) if (partial_fns and l in (labels[0], labels[-1])) else f

    xns = {l: xn(node_fn(l), tag=tags[l], setup=(setup0 and l == labels[0]), resource=Resource.main_thread) for l in labels}

    def call_args(l: str, r: Dict[str, Any]) -> List[Any]:
        out: List[Any] = [7] if const_arg[l] else []
        for dd in deps[l]:
            v = r[dd]
            if idx_dep == (dd, l):
                v = v[0] if v is not None else None  # an unexecuted node reads as None, indexed or not
            out.append(v)
        return out

    def pipe() -> Any:
        r: Dict[str, Any] = {}
        for l in labels:
            r[l] = xns[l](*call_args(l, r))
        if cfg.indexed:
            return tuple(r[l] for l in labels) + (r[labels[-1]][0],)
        return tuple(r[l] for l in labels)

    d = dag(pipe)

    # ---- the selection, spec side and implementation side
    def resolve(m: str) -> Optional[Set[str]]:
        """Documented alias resolution: reference -> that node; string -> nodes carrying it as tag, else the id."""
        if m == "@g":
            if style == 2:
                return None  # no node carries the tag "g" in this style
            return {labels[0], labels[1]} if N >= 2 else {labels[0]}
        if m == "@zz":
            return None
        if form == "ref":
            return {m}
        s = m if form == "id" else (tags[m] if style == 2 else "t%d" % labels.index(m))
        tagged = {l for l in labels if (s == tags[l] if style == 2 else s in tags[l])}
        return tagged or ({s} if s in labels else None)

    def alias(m: str) -> Any:
        if m == "@g":
            return "g"
        if m == "@zz":
            return "zz"
        if form == "ref":
            return xns[m]
        return m if form == "id" else (tags[m] if style == 2 else "t%d" % labels.index(m))

    chosen: Dict[str, Any] = {}
    sets: Dict[str, Optional[Set[str]]] = {}
    unknown = False
    for role in ("R", "X", "T"):
        opts = member_options(N, role)
        o = opts[c.choose(len(opts), "sel" + role)]
        chosen[role] = o
        if o is None:
            sets[role] = None
            continue
        acc: Set[str] = set()
        for m in o:
            r_ = resolve(m)
            if r_ is None:
                unknown = True
            else:
                acc |= r_
        sets[role] = acc
    R, X, T = sets["R"], sets["X"], sets["T"]
    after_R = selection_spec(labels, deps, R, None, None)
    # precondition of the property: every excluded node lies inside the part selected by R
    if X is not None:
        c.assume(X <= after_R)
    after_RX = selection_spec(labels, deps, R, X, None)
    expect_error = unknown
    if R is not None and any(deps[r] or const_arg[r] for r in R):
        expect_error = True
    if T is not None and not T <= after_RX:
        expect_error = True
    expected = selection_spec(labels, deps, R, X, T)
    kw = {}
    for role, name in (("R", "root_nodes"), ("X", "exclude_nodes"), ("T", "target_nodes")):
        if chosen[role] is not None:
            kw[name] = [alias(m) for m in chosen[role]]
            if dup_members:
                kw[name] += [m for m in chosen[role] if not m.startswith("@")]
    data = {"deps": deps, "const_arg": const_arg, "tags": tags, "form": form, "chosen": chosen, "setup0": setup0}

    # optional history: the setup node already ran
    pre_done: Set[str] = set()
    if setup0 and c.choose(2, "presetup"):
        d.setup()
        pre_done = {labels[0]}
        cnt.reset()

    # reference values
    ref: Dict[str, Any] = {}
    for l in labels:
        if l in expected or l in pre_done:
            ref[l] = SymVal(vapp("f_" + l, [lift(a) for a in call_args(l, ref)]))
        else:
            ref[l] = None
    raised: Optional[BaseException] = None
    out = None
    try:
        ex = d.executor(**kw)
        graph_nodes = {n for n in ex.graph.nodes if n in labels}
        out = ex()
    except SXControl:
        raise
    except ValueError as e:
        raised = e
    except BaseException as e:  # anything else is not the documented behaviour
        c.check(False, "selection raised %r (documented: ValueError or a result)" % (e,), prop="C12", data=data)
        raise
    if expect_error:
        c.check(raised is not None, "invalid selection (unknown alias / non-root in root_nodes / target outside the selection) was accepted",
                prop="C12", data=data)
        c.check(not cnt.entered(), "nodes %s ran although the selection is invalid" % sorted(cnt.entered()), prop="C12", data=data)
        c.cover("w_error_case")
        return {"case": "error", **data}
    c.check(raised is None, "valid selection raised %r" % (raised,), prop="C12", data=data)
    c.check(graph_nodes == expected, "executor graph %s differs from the documented closure %s" % (sorted(graph_nodes), sorted(expected)),
            prop="C12", data=data)
    want_run = expected - pre_done
    c.check(cnt.entered() == want_run and all(v == 1 for v in cnt.n.values()),
            "executed nodes %s differ from the documented closure %s" % (dict(cnt.n), sorted(want_run)), prop="C12", data=data)
    want_out = tuple(ref[l] for l in labels)
    if cfg.indexed:
        last = ref[labels[-1]]
        want_out = want_out + ((last[0] if last is not None else None),)
    c.check(veq(out, want_out), "returned values differ: real values for executed / computed nodes, None otherwise",
            prop="C12", data={**data, "got": out})
    c.cover("states", hash((tuple(tuple(deps[l]) for l in labels), repr(chosen), form, tuple(const_arg.values()))))
    if expected and expected != set(labels):
        c.cover("w_proper_subgraph")
    if R is not None and X is not None and T is not None:
        c.cover("w_all_three")
    if cfg.twin:
        c.check(False, "reachability twin: the end of the harness is reachable", prop="TWIN")
    return {"case": "ok", "expected": sorted(expected), **data}


def _prior_executor(c: Ctx, d: Any, kwsel: Dict[str, Any], run_dbg: bool) -> None:
    """Optionally an executor for the same selection was created earlier under the opposite debug setting (and never run):
    whatever the DAG remembers of it must not leak into the executor under test."""
    from tawazi import cfg as twz_cfg

    if not c.choose(2, "prior_executor_opposite_flag"):
        return
    twz_cfg.RUN_DEBUG_NODES = not run_dbg
    try:
        d.executor(**kwsel)
    except SXControl:
        raise
    except Exception:  # noqa: BLE001  (what this earlier construction does is not the subject)
        pass
    finally:
        twz_cfg.RUN_DEBUG_NODES = run_dbg
    c.cover("w_prior_executor")


# ------------------------------------------------------------------------------------------------ C13
@watchdog(lambda cfg: "C13")
def run_c13(cfg: GCfg, c: Ctx) -> Any:
    from tawazi import Resource, cfg as twz_cfg, dag, xn
    from tawazi.errors import TawaziBaseException

    N = cfg.N
    labels = ["n%d" % i for i in range(N)]
    deps = _edges(c, labels, cfg)
    desc, anc = closure(labels, deps)
    dbg = {l for l in labels if c.choose(2, "debug")}
    act: Dict[str, str] = {}
    if cfg.activation and N >= 2:
        pairs = [(j, i) for i in range(N) for j in range(i)]
        k = c.choose(len(pairs) + 1, "act")
        if k:
            j, i = pairs[k - 1]
            act[labels[i]] = labels[j]
            if labels[j] not in deps[labels[i]]:
                deps[labels[i]] = deps[labels[i]]  # data deps unchanged; activation is an extra dependency edge
    alldeps = {l: list(dict.fromkeys(deps[l] + ([act[l]] if l in act else []))) for l in labels}
    invalid = any((l not in dbg) and any(d in dbg for d in alldeps[l]) for l in labels)
    setup0 = bool(cfg.setup and labels[0] not in dbg and c.choose(2, "setup"))
    cnt = Counter()
    desc, anc = closure(labels, alldeps)
    fail: List[Optional[str]] = [None]

    def node_fn13(l: str) -> Any:
        f = term_fn(l, cnt)

        def g(*a, **k):  # type: ignore[no-untyped-def]
            if fail[0] == l:
                raise RuntimeError("injected failure of %s" % l)
            return f(*a, **k)

        g.__name__ = g.__qualname__ = l
        return g

    xns = {l: xn(node_fn13(l), debug=(l in dbg), setup=(setup0 and l == labels[0]), resource=Resource.main_thread) for l in labels}

    def call_args(l: str, r: Dict[str, Any]) -> List[Any]:
        return [r[d] for d in deps[l]]

    def pipe() -> Any:
        r: Dict[str, Any] = {}
        for l in labels:
            kw = {"twz_active": r[act[l]]} if l in act else {}
            r[l] = xns[l](*call_args(l, r), **kw)
        return tuple(r[l] for l in labels)

    data: Dict[str, Any] = {"deps": deps, "act": act, "debug": sorted(dbg), "setup0": setup0}
    flavour = cfg.flavours[c.choose(len(cfg.flavours), "flavour")] if len(cfg.flavours) > 1 else cfg.flavours
    try:
        d = dag(pipe, is_async=(flavour == "a"))
        built = True
    except SXControl:
        raise
    except TawaziBaseException as e:
        built = False
        err = e
    if invalid:
        c.check(not built, "a DAG in which a non-debug node depends on a debug node was accepted", prop="C13", data=data)
        c.cover("w_invalid_rejected")
        return {"case": "rejected", **data}
    c.check(built, "valid debug placement rejected", prop="C13", data=data)
    run_dbg = bool(c.choose(2, "run_debug"))
    # optionally one node is reconfigured (priority only) before anything runs: it must stay what it was (debug or not)
    k = c.choose(N + 1, "reconf") if cfg.reconf else 0
    if k:
        d.config_from_dict({"nodes": {labels[k - 1]: {"priority": 3}}})
        c.cover("w_reconfigured")
    modes = ["call"] + [(k, l) for k in ("target", "exclude", "root", "deps_of") for l in labels] + (["setup", "setup+call"] if setup0 else [])
    if cfg.combined:
        modes += [(k, a, b) for k in ("root+target", "root+exclude") for a in labels for b in labels if a != b]
    mode = modes[c.choose(len(modes), "mode")]
    data.update(run_debug=run_dbg, mode=mode)
    saved = twz_cfg.RUN_DEBUG_NODES
    twz_cfg.RUN_DEBUG_NODES = run_dbg
    out = None
    graph_nodes: Set[str] = set(labels)
    try:
        if mode == "call":
            out = _sync(d())
            sel_all = set(labels)
        elif mode == "setup":
            _sync(d.setup())
            sel_all = {labels[0]}
        elif mode == "setup+call":
            # an explicit setup phase, then a whole-DAG call: the call runs everything but the node that is already set up
            _sync(d.setup())
            cnt.reset()
            out = _sync(d())
            sel_all = set(labels)
            c.cover("w_setup_then_call")
        elif len(mode) == 3:
            kind, a, b = mode
            c.assume(not alldeps[a])  # a is a root
            after_r = selection_spec(labels, alldeps, {a}, None, None)
            c.assume(b in after_r)  # the excluded / targeted node lies inside the part selected by the root
            if kind == "root+target":
                kwsel = {"root_nodes": [a], "target_nodes": [b]}
                sel_all = selection_spec(labels, alldeps, {a}, None, {b})
            else:
                kwsel = {"root_nodes": [a], "exclude_nodes": [b]}
                sel_all = selection_spec(labels, alldeps, {a}, {b}, None)
            _prior_executor(c, d, kwsel, run_dbg)
            ex = d.executor(**kwsel)
            graph_nodes = set(ex.graph.nodes)
            out = _sync(ex())
            c.cover("w_combined_selection")
        else:
            kind, x = mode
            if kind == "root":
                c.assume(not alldeps[x])
            kwsel = {kind + "_nodes": [x]} if kind != "deps_of" else {"cache_deps_of": [x]}
            sel_all = selection_spec(labels, alldeps, {x} if kind == "root" else None, {x} if kind == "exclude" else None,
                                     {x} if kind in ("target", "deps_of") else None)
            _prior_executor(c, d, kwsel, run_dbg)
            ex = d.executor(**kwsel)
            if cfg.failed_before and c.choose(2, "failed_before"):
                # the executor was created under this debug setting; an earlier run of it, made while the setting was the
                # opposite one, failed in a node: the run that is judged uses what the executor selected when it was created
                c.assume(not setup0)
                fail[0] = labels[c.choose(N, "failed_before_node")]
                twz_cfg.RUN_DEBUG_NODES = not run_dbg
                raised_before = False
                try:
                    _sync(ex())
                except SXControl:
                    raise
                except BaseException:
                    raised_before = True
                finally:
                    fail[0] = None
                    twz_cfg.RUN_DEBUG_NODES = run_dbg
                c.assume(raised_before)
                cnt.reset()
                out = _sync(ex())
                graph_nodes = set(ex.graph.nodes)
                c.cover("w_failed_before_under_other_setting")
            else:
                graph_nodes = set(ex.graph.nodes)
                out = _sync(ex())
    finally:
        twz_cfg.RUN_DEBUG_NODES = saved
    entered = cnt.entered()
    nondebug_expected = {l for l in sel_all if l not in dbg}
    # reference values of non-debug nodes do not depend on the flag
    ref: Dict[str, Any] = {}
    for l in labels:
        active = True
        if l in act and l in nondebug_expected:
            flag = ref[act[l]]  # a valid placement: the flag of a non-debug node is a non-debug node
            active = bool(flag) if flag is not None else False
        if l in nondebug_expected and active:
            ref[l] = SymVal(vapp("f_" + l, [lift(a) for a in call_args(l, ref)]))
        else:
            ref[l] = None
            nondebug_expected.discard(l)
    if mode == "setup+call":
        nondebug_expected.discard(labels[0])  # (ran during the setup phase, before the counters were reset)
    if not run_dbg:
        c.check(not (entered & dbg), "debug nodes %s executed although RUN_DEBUG_NODES is off" % sorted(entered & dbg), prop="C13", data=data)
    else:
        if mode in ("call", "setup+call"):
            for l in sorted(dbg):
                want_n = 1
                if l in act:  # a flagged debug node runs iff its flag (the actual value of the flag node) is truthy
                    flagv = out[labels.index(act[l])]
                    want_n = 1 if (flagv is not None and bool(flagv)) else 0
                c.check(cnt.n.get(l, 0) == want_n, "whole-DAG call with RUN_DEBUG_NODES on ran debug node %s %d times (expected %d)" % (l, cnt.n.get(l, 0), want_n),
                        prop="C13", data=data)
        # every debug node pulled in by the debug rule (i.e. not part of the plain selection closure, where an
        # unselected input legitimately reads as None) had all its inputs available
        for l in sorted((entered & dbg) - sel_all):
            for dep in alldeps[l]:
                # available = took part in this execution (executed, or deactivated by its own flag and therefore None by design)
                c.check(dep in entered or dep in graph_nodes,
                        "debug node %s ran although its input %s was not computed" % (l, dep), prop="C13", data=data)
        if entered & dbg:
            c.cover("w_debug_ran")
        if (entered & dbg) - sel_all:
            c.cover("w_debug_pulled_in")
    c.check((entered - dbg) == nondebug_expected and all(cnt.n.get(l, 0) == 1 for l in nondebug_expected),
            "non-debug nodes executed %s differ from the selection %s" % (sorted(entered - dbg), sorted(nondebug_expected)), prop="C13", data=data)
    if out is not None:
        got_nd = tuple(v for l, v in zip(labels, out) if l not in dbg)
        want_nd = tuple(ref[l] for l in labels if l not in dbg)
        c.check(veq(got_nd, want_nd), "values of non-debug nodes depend on the debug setting / differ from the reference", prop="C13",
                data={**data, "got": got_nd})
    c.cover("states", hash((tuple(tuple(deps[l]) for l in labels), tuple(sorted(dbg)), run_dbg, repr(mode))))
    if dbg and mode not in ("call", "setup"):
        c.cover("w_debug_with_selection")
    if cfg.twin:
        c.check(False, "reachability twin: the end of the harness is reachable", prop="TWIN")
    return {"case": "ok", **data}


# ------------------------------------------------------------------------------------------------ C13: build validation
BUILD_ROUTES = ("positional", "keyword", "flag", "indexed", "indexed-flag", "unpacked", "operator", "nested-positional",
                "nested-flag-with-input", "nested-flag-without-input", "nested-inner-flag", "nested-returns-producer")


@watchdog(lambda cfg: "C13")
def run_c13_build(cfg: GCfg, c: Ctx) -> Any:
    """Every way a node can come to depend on another one: a non-debug consumer of a debug producer is refused at build
    time; what is accepted gives the same production values with the flag on and off."""
    from tawazi import Resource, cfg as twz_cfg, dag, xn
    from tawazi.errors import TawaziBaseException

    cnt = Counter()
    p_debug = bool(c.choose(2, "producer_debug"))
    q_debug = bool(c.choose(2, "consumer_debug"))
    route = BUILD_ROUTES[c.choose(len(BUILD_ROUTES), "route")]
    v0, v1 = SymVal(vapp("p_0", [])), SymVal(vapp("p_1", []))

    def p_fn():  # type: ignore[no-untyped-def]
        cnt.hit("p")
        return (v0, v1)

    p_fn.__name__ = p_fn.__qualname__ = "p"
    unpack = {"unpack_to": 2} if route == "unpacked" else {}
    p = xn(p_fn, debug=p_debug, resource=Resource.main_thread, **unpack)
    q = xn(term_fn("q", cnt), debug=q_debug, resource=Resource.main_thread)
    w = xn(term_fn("w", cnt), resource=Resource.main_thread)  # a production node that never depends on p

    def sub1(a):  # type: ignore[no-untyped-def]
        return q(a)

    def sub0():  # type: ignore[no-untyped-def]
        return q()

    def subf(f):  # type: ignore[no-untyped-def]
        return q(twz_active=f[0])

    def subp():  # type: ignore[no-untyped-def]
        return p()  # the nested DAG returns the producer's result; the consumer lives in the outer DAG

    # (nested DAGs are built before the outer description starts: the build lock is not re-entrant)
    nested = {"nested-positional": sub1, "nested-flag-with-input": sub1, "nested-flag-without-input": sub0, "nested-inner-flag": subf, "nested-returns-producer": subp}
    inner = None
    if route in nested:
        try:
            inner = dag(nested[route])
        except SXControl:
            raise
        except TawaziBaseException as e:
            return {"case": "inner DAG refused on its own", "error": repr(e)}

    def pipe():  # type: ignore[no-untyped-def]
        k = w()
        if route == "nested-returns-producer":
            return k, q(inner())
        r = p()
        if route == "positional":
            o = q(r)
        elif route == "keyword":
            o = q(kw=r)
        elif route == "flag":
            o = q(twz_active=r)
        elif route == "indexed":
            o = q(r[1])
        elif route == "indexed-flag":
            o = q(twz_active=r[0])
        elif route == "unpacked":
            a, b = r
            o = q(b)
        elif route == "operator":
            o = q(r == 3)
        elif route == "nested-positional":
            o = inner(r)
        elif route == "nested-flag-with-input":
            o = inner(k, twz_active=r)
        elif route == "nested-flag-without-input":
            o = inner(twz_active=r)
        else:
            o = inner(r)
        return k, o

    data: Dict[str, Any] = {"route": route, "producer_debug": p_debug, "consumer_debug": q_debug}
    built = True
    try:
        d = dag(pipe)
    except SXControl:
        raise
    except TawaziBaseException:
        built = False
    # an operator applied to a node result is a (non-debug) node of its own
    invalid = p_debug and (not q_debug or route == "operator")
    if invalid:
        c.check(not built, "a DAG in which a non-debug node depends on a debug node (%s) was accepted" % route, prop="C13", data=data)
        c.cover("w_invalid_rejected")
        return {"case": "rejected", **data}
    if not built and p_debug and route in nested:
        # the argument / flag of a nested DAG becomes an internal non-debug input node: the library may refuse a debug
        # producer there even for a debug consumer (the property only demands that the invalid placements are refused)
        c.cover("w_conservative_refusal")
        return {"case": "refused (conservative)", **data}
    c.check(built, "valid debug placement (%s) rejected" % route, prop="C13", data=data)
    outs = {}
    saved = twz_cfg.RUN_DEBUG_NODES
    for run_dbg in (False, True):
        cnt.reset()
        twz_cfg.RUN_DEBUG_NODES = run_dbg
        try:
            outs[run_dbg] = d()
        finally:
            twz_cfg.RUN_DEBUG_NODES = saved
        ran = cnt.entered()
        dbg_nodes = {n for n, f in (("p", p_debug), ("q", q_debug)) if f}
        if not run_dbg:
            c.check(not (ran & dbg_nodes), "debug nodes %s executed although RUN_DEBUG_NODES is off" % sorted(ran & dbg_nodes), prop="C13", data=data)
        c.check("w" in ran and cnt.n["w"] == 1, "production node w did not run exactly once", prop="C13", data=data)
    c.check(veq(outs[False][0], outs[True][0]), "the value of a production node depends on the debug setting", prop="C13", data=data)
    if not q_debug:
        c.check(veq(outs[False][1], outs[True][1]), "the value of a production node depends on the debug setting", prop="C13", data=data)
    c.cover("w_valid_accepted")
    c.cover("states", hash((route, p_debug, q_debug)))
    if cfg.twin:
        c.check(False, "reachability twin: the end of the harness is reachable", prop="TWIN")
    return {"case": "ok", **data}


# ------------------------------------------------------------------------------------------------ configuration loaders
@dataclasses.dataclass(frozen=True)
class LCfg:
    prop: str = "C07"
    twin: bool = False


@watchdog(lambda cfg: cfg.prop)
def run_config_loaders(cfg: LCfg, c: Ctx) -> Any:
    """config_from_dict / config_from_yaml / config_from_json with the same (concrete, solver-enumerated) content configure a
    DAG identically: node attributes, max_concurrency, the compound-priority table (own priority + distinct descendants) and
    the execution order with max_concurrency 1 that follows from it."""
    import json
    import os
    import tempfile

    import yaml
    from tawazi import Resource, dag, xn

    N = 3
    labels = ["n%d" % i for i in range(N)]
    deps = _edges(c, labels)
    desc, _anc = closure(labels, deps)
    addr = ("id", "tag", "shared-tag")[c.choose(3, "address")]
    loader = ("dict", "yaml", "json")[c.choose(3, "loader")]
    prio = {l: (0, 2, -1)[c.choose(3, "prio_" + l)] for l in labels}
    seq_pattern = c.choose(3, "seq_pattern")  # none sequential / the first node / all nodes
    seq = {l: (seq_pattern == 2 or (seq_pattern == 1 and l == labels[0])) for l in labels}
    if addr == "shared-tag":
        prio = {l: prio[labels[0]] for l in labels}
        seq = {l: seq[labels[0]] for l in labels}
    mc = (1, 3, None)[c.choose(3, "mc")]  # None: the configuration has no max_concurrency entry - the limit stays what it was
    order: List[str] = []

    def make(l: str) -> Any:
        def fn(*a):  # type: ignore[no-untyped-def]
            order.append(l)
            return SymVal(vapp("f_" + l, [lift(v) for v in a]))

        fn.__name__ = fn.__qualname__ = l
        return fn

    xns = {l: xn(make(l), priority=1, is_sequential=False, tag=("t_" + l, "g"), resource=Resource.main_thread) for l in labels}

    def pipe(x):  # type: ignore[no-untyped-def]
        r: Dict[str, Any] = {}
        for l in labels:
            r[l] = xns[l](x, *[r[d] for d in deps[l]])
        return tuple(r[l] for l in labels)

    d = dag(pipe, max_concurrency=2)
    if addr == "shared-tag":
        nodes_cfg: Dict[str, Any] = {"g": {"priority": prio[labels[0]], "is_sequential": seq[labels[0]]}}
    else:
        nodes_cfg = {(l if addr == "id" else "t_" + l): {"priority": prio[l], "is_sequential": seq[l]} for l in labels}
    conf = {"nodes": nodes_cfg, "max_concurrency": mc} if mc is not None else {"nodes": nodes_cfg}
    if mc is None:
        mc = 2  # the value the DAG was built with
    data: Dict[str, Any] = {"deps": deps, "address": addr, "loader": loader, "config": conf}
    if loader == "dict":
        d.config_from_dict(conf)
    else:
        fd, path = tempfile.mkstemp(prefix="sxconf", suffix="." + loader)
        try:
            with os.fdopen(fd, "w") as f:
                if loader == "yaml":
                    yaml.safe_dump(conf, f)
                else:
                    json.dump(conf, f)
            (d.config_from_yaml if loader == "yaml" else d.config_from_json)(path)
        finally:
            os.unlink(path)
    P = cfg.prop
    for l in labels:
        node = d.get_node_by_id(l)
        c.check(node.priority == prio[l] and node.is_sequential == seq[l], "node %s has priority %r / is_sequential %r after the %s configuration, configured %r / %r" % (
            l, node.priority, node.is_sequential, loader, prio[l], seq[l]), prop=P, data=data)
        c.check(node.resource == Resource.main_thread and tuple(node.tag) == ("t_" + l, "g"), "the configuration changed the resource or the tags of %s" % l, prop=P, data=data)
        want_cp = prio[l] + sum(prio[m] for m in desc[l])
        c.check(d.graph_ids.compound_priority[l] == want_cp, "compound priority of %s is %r after the %s configuration, own + distinct descendants is %r" % (
            l, d.graph_ids.compound_priority[l], loader, want_cp), prop=P, data=data)
    c.check(d.max_concurrency == mc, "max_concurrency is %r after the %s configuration, configured %r" % (d.max_concurrency, loader, mc), prop=P, data=data)
    # execution order: main-thread nodes run one at a time; among the ready nodes the greatest compound priority goes first
    d(c.val("x"))
    cp = {l: prio[l] + sum(prio[m] for m in desc[l]) for l in labels}
    done: List[str] = []
    ok = len(order) == N and set(order) == set(labels)
    for l in order if ok else []:
        ready = [m for m in labels if m not in done and all(dd in done for dd in deps[m])]
        if l not in ready or any(cp[m] > cp[l] for m in ready):
            ok = False
            break
        done.append(l)
    c.check(ok, "execution order %s does not follow the configured compound priorities %s" % (order, cp), prop=P, data=data)
    c.cover("w_loader_" + loader)
    c.cover("states", hash(repr(data)))
    if cfg.twin:
        c.check(False, "reachability twin: the end of the harness is reachable", prop="TWIN")
    return data
