"""C14, the reporting clause: the exception of a failing call names the failing node *and its call location*.

The scheduler harness calls every node from one loop line, so it cannot tell call sites apart; here one decorated
function is used at several source lines (several call sites of one function, also inside a nested DAG and across two
DAGs described by different functions), the failing usage is solver-chosen, and the report must carry the id of that
usage, the source line of that usage and the original exception as its cause.  The real scheduler runs on the real pool.
"""
from __future__ import annotations

import dataclasses
from typing import Any, Dict, List

from harness.common import watchdog
from sx.engine import Ctx, SXControl, SymVal, lift, vapp


@dataclasses.dataclass(frozen=True)
class FCfg:
    twin: bool = False


class Injected(Exception):
    pass


@watchdog(lambda cfg: "C14")
def run_c14_location(cfg: FCfg, c: Ctx) -> Any:
    from tawazi import Resource, dag, xn
    from tawazi.errors import TawaziBaseException

    variant = ("three-sites", "nested", "two-describing-functions", "profiled", "reconfigured")[c.choose(5, "variant")]
    res = (Resource.main_thread, Resource.thread, Resource.async_thread)[c.choose(3, "resource")]
    fail_at = c.choose(3, "failing_usage")
    calls: List[int] = []
    state = {"armed": False}

    def f_fn(v):  # type: ignore[no-untyped-def]
        calls.append(len(calls))
        if state["armed"] and len(calls) - 1 == fail_at:
            raise Injected("usage %d" % fail_at)
        return SymVal(vapp("f", [lift(v)]))

    f_fn.__name__ = f_fn.__qualname__ = "f"
    f = xn(f_fn, resource=res)

    def warm(x):  # type: ignore[no-untyped-def]
        return f(x)

    def inner(x):  # type: ignore[no-untyped-def]
        a = f(x)
        b = f(a)
        return b

    inner.__qualname__ = "inner"
    inner_dag = dag(inner) if variant == "nested" else None

    if variant == "nested":

        def pipe(x):  # type: ignore[no-untyped-def]
            a = f(x)
            b = inner_dag(a)
            return b

        first = pipe.__code__.co_firstlineno
        inner_first = inner.__code__.co_firstlineno
        lines = [(__file__, first + 1), (__file__, inner_first + 1), (__file__, inner_first + 2)]
        ids = ["f", "inner.f", "inner.f<<1>>"]
    else:

        def pipe(x):  # type: ignore[no-untyped-def]
            a = f(x)
            b = f(a)
            c_ = f(b)
            return c_

        first = pipe.__code__.co_firstlineno
        lines = [(__file__, first + 1), (__file__, first + 2), (__file__, first + 3)]
        ids = ["f", "f<<1>>", "f<<2>>"]
    if variant == "two-describing-functions":
        dag(warm)  # the same function was used by another DAG before
    from tawazi import cfg as twz_cfg

    saved = twz_cfg.TAWAZI_PROFILE_ALL_NODES
    twz_cfg.TAWAZI_PROFILE_ALL_NODES = variant == "profiled"
    data: Dict[str, Any] = {"variant": variant, "resource": res.value, "failing_usage": fail_at}
    try:
        d = dag(pipe, max_concurrency=2)
        if variant == "reconfigured":
            # the failing usage was reconfigured after the description: its report still names it and its line
            d.config_from_dict({"nodes": {ids[fail_at]: {"priority": 1}}})
        state["armed"] = True
        try:
            d(c.val("x"))
            outcome: Any = ("returned", None)
        except SXControl:
            raise
        except BaseException as e:  # noqa: BLE001
            outcome = ("raised", e)
    finally:
        twz_cfg.TAWAZI_PROFILE_ALL_NODES = saved
    c.check(outcome[0] == "raised", "the call returned although usage %d of the node function raised" % fail_at, prop="C14", data=data)
    e = outcome[1]
    fname, line = lines[fail_at]
    data.update(message=str(e), expected_id=ids[fail_at], expected_location="%s:%d" % (fname, line))
    c.check(isinstance(e, TawaziBaseException) and isinstance(e.__cause__, Injected),
            "the failure surfaced as %r with cause %r instead of a tawazi exception caused by the node's exception" % (e, getattr(e, "__cause__", None)), prop="C14", data=data)
    msg = str(e)
    c.check(("ExecNode %s " % ids[fail_at]) in msg, "the report does not name the failing node %s: %s" % (ids[fail_at], msg), prop="C14", data=data)
    c.check(msg.rstrip().endswith("%s:%d" % (fname, line)), "the report does not give the call location of the failing usage (%s:%d): %s" % (fname, line, msg), prop="C14", data=data)
    c.check(len(calls) == fail_at + 1, "node functions entered %d times, the chain fails at usage %d" % (len(calls), fail_at), prop="C14", data=data)
    c.cover("w_location_checked")
    c.cover("states", hash((variant, res.value, fail_at)))
    if cfg.twin:
        c.check(False, "reachability twin: the end of the harness is reachable", prop="TWIN")
    return data
