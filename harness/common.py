"""Shared pieces of the front-end / graph-algebra / history harnesses.

Node functions build terms of the uninterpreted sort V (``f_<label>(args...)``), so that one run stands
for every input and every node function; an entry counter per label records which functions ran.  The
*reference* of a program is the same describing code evaluated with the plain callables.
These harnesses run the real scheduler on the real ThreadPoolExecutor / event loop: nodes use the
main-thread resource unless stated otherwise, so the result does not depend on thread timing.
"""
from __future__ import annotations

import itertools
from typing import Any, Callable, Dict, List, Optional, Sequence, Set, Tuple

from sx.engine import Ctx, SXControl, SymVal, lift, vapp


class Counter:
    def __init__(self) -> None:
        self.n: Dict[str, int] = {}
        self.order: List[str] = []
        self.args: Dict[str, List[Any]] = {}

    def hit(self, label: str, args: Tuple[Any, ...] = (), kwargs: Optional[Dict[str, Any]] = None) -> None:
        self.n[label] = self.n.get(label, 0) + 1
        self.order.append(label)
        self.args.setdefault(label, []).append((args, dict(kwargs or {})))

    def reset(self) -> None:
        self.n.clear()
        self.order.clear()
        self.args.clear()

    def entered(self) -> Set[str]:
        return {k for k, v in self.n.items() if v}


def term_fn(label: str, counter: Optional[Counter] = None, fname: Optional[str] = None, stamp: Optional[Callable[[], Any]] = None) -> Callable[..., Any]:
    """Plain callable whose result is the term f_<fname>(args..., kw values in name order)."""
    name = fname or label

    def fn(*args, **kwargs):  # type: ignore[no-untyped-def]  # (no annotations: tawazi inspects them)
        if counter is not None:
            counter.hit(label, args, kwargs)
        parts = [lift(a) for a in args]
        for k in sorted(kwargs):
            parts.append(lift("kw:" + k))
            parts.append(lift(kwargs[k]))
        if stamp is not None:
            parts.append(lift(stamp()))
        return SymVal(vapp("f_" + name, parts))

    fn.__name__ = fn.__qualname__ = label
    return fn


def closure(labels: Sequence[str], deps: Dict[str, List[str]]) -> Tuple[Dict[str, Set[str]], Dict[str, Set[str]]]:
    """(descendants, ancestors), both strict, of every label."""
    desc: Dict[str, Set[str]] = {l: set() for l in labels}
    anc: Dict[str, Set[str]] = {l: set() for l in labels}
    changed = True
    while changed:
        changed = False
        for l in labels:
            for d in deps[l]:
                new_a = {d} | anc[d]
                if not new_a <= anc[l]:
                    anc[l] |= new_a
                    changed = True
    for l in labels:
        for a in anc[l]:
            desc[a].add(l)
    return desc, anc


def selection_spec(labels: Sequence[str], deps: Dict[str, List[str]], R: Optional[Set[str]], X: Optional[Set[str]],
                   T: Optional[Set[str]]) -> Set[str]:
    """The documented closure: R and everything depending on R, minus X and everything depending on X,
    restricted to T and the ancestors of T."""
    desc, anc = closure(labels, deps)
    cur = set(labels)
    if R is not None:
        cur = set()
        for r in R:
            cur |= {r} | desc[r]
    if X is not None:
        for x in X:
            cur -= {x} | desc[x]
    if T is not None:
        keep: Set[str] = set()
        for t in T:
            keep |= {t} | anc[t]
        cur &= keep
    return cur


def perms(n: int) -> List[Tuple[int, ...]]:
    return list(itertools.permutations(range(n)))


class Blocked(BaseException):
    """Raised by the wall-clock deadline of a real-pool harness path: some call of the library did not return."""


PATH_DEADLINE_S = 120.0  # a path of these harnesses takes milliseconds to a few seconds
_poisoned: List[str] = []


def watchdog(prop_of: Callable[[Any], str]) -> Callable[[Callable[..., Any]], Callable[..., Any]]:
    """Decorator for harnesses running on the real pool / loop: a scheduler that spins (executes an
    unreasonable number of lines in one path) is reported as a violation instead of hanging the check."""
    import functools

    from sx import env as E

    def deco(h: Callable[..., Any]) -> Callable[..., Any]:
        @functools.wraps(h)
        def wrapped(cfg: Any, c: Ctx) -> Any:
            import signal
            import threading

            if _poisoned:
                raise E.HarnessError("this worker process interrupted a blocked library call before (%s): its state is unreliable" % _poisoned[0])
            E.install_watchdog()
            E.watch(E.Budget())
            armed = threading.current_thread() is threading.main_thread()
            if armed:
                def on_alarm(_sig: int, _frm: Any) -> None:
                    raise Blocked("no return within %.0f s" % PATH_DEADLINE_S)

                old_handler = signal.signal(signal.SIGALRM, on_alarm)
                signal.setitimer(signal.ITIMER_REAL, PATH_DEADLINE_S)
            try:
                return h(cfg, c)
            except Blocked as e:
                # a call that blocks for ever (a lock that is never released, a wait nobody ends) neither returns nor raises
                import traceback

                E.watch(None)
                tb = traceback.extract_tb(e.__traceback__)
                where = ["%s:%d %s" % (f.filename, f.lineno, f.name) for f in tb[-5:]]
                _poisoned.append(where[-1] if where else "?")
                c.check(False, "a library call neither returns nor raises (blocked for %.0f s)" % PATH_DEADLINE_S, prop=prop_of(cfg), data={"where": where})
                raise E.HarnessError("blocked call without a verdict")
            except E.Spin as e:
                E.watch(None)
                c.check(False, "a call does not terminate (scheduler spins): %s" % e, prop=prop_of(cfg))
                raise
            except SXControl:
                raise
            except BaseException as e:  # noqa: BLE001
                # every program / history the harness generates is valid and every documented refusal is handled where it
                # is expected: an exception that escapes to here was raised by the library on a valid use
                import traceback

                E.watch(None)
                if isinstance(e, (KeyboardInterrupt, SystemExit)):
                    raise
                tb = traceback.extract_tb(e.__traceback__)
                where = ["%s:%d %s" % (f.filename, f.lineno, f.name) for f in tb[-4:]]
                in_lib = any("/tawazi/" in f.filename for f in tb)
                if not in_lib:
                    raise  # a bug of the harness itself: never a verdict
                c.check(False, "the library raised %r on a valid program / history" % (e,), prop=prop_of(cfg), data={"where": where})
                raise
            finally:
                if armed:
                    signal.setitimer(signal.ITIMER_REAL, 0)
                    signal.signal(signal.SIGALRM, old_handler)
                E.watch(None)

        return wrapped

    return deco
