"""History harnesses: setup-once (C11), no state leakage (C15), cache restart (C18).

Operation sequences on one DAG instance are solver-chosen (each operation and its parameters a
decision); node values are terms over fresh symbolic arguments, so "the value produced the first
time" / "the result for its own arguments" are term equalities decided by z3.  The real code runs on
the real pool / loop with main-thread nodes.
"""
from __future__ import annotations

import copy
import dataclasses
import os
import pickle
import tempfile
from typing import Any, Dict, List, Optional, Set, Tuple

from harness.common import closure, watchdog
from sx.engine import Ctx, SXControl, SymVal, lift, vapp, veq


@dataclasses.dataclass(frozen=True)
class HCfg:
    N: int = 3
    length: int = 3
    flavours: str = "s"
    deepcopy: bool = True
    twin: bool = False  # reachability twin: the harness ends with check(False), which must come back violated
    ops: str = "all"  # C15 harness: "exec" restricts the alphabet to executor operations and plain calls
    prop: str = ""  # run_c09_after_failures: the property the part is run for (default C09)


class InstCounter:
    """Entry counts keyed by (instance, label); the harness names the instance an operation acts on."""

    def __init__(self) -> None:
        self.inst = 0
        self.n: Dict[Tuple[int, str], int] = {}
        self.first: Dict[Tuple[int, str], Any] = {}
        self.op_entered: List[str] = []
        self.gen: Dict[str, int] = {}

    def hit(self, label: str) -> int:
        k = (self.inst, label)
        self.n[k] = self.n.get(k, 0) + 1
        self.op_entered.append(label)
        self.gen[label] = self.gen.get(label, 0) + 1
        return self.gen[label]


def _edges(c: Ctx, labels: List[str]) -> Dict[str, List[str]]:
    deps: Dict[str, List[str]] = {l: [] for l in labels}
    for i in range(len(labels)):
        for j in range(i):
            if c.choose(2, "edge"):
                deps[labels[i]].append(labels[j])
    return deps


def _run(d: Any, *a: Any) -> Any:
    r = d(*a)
    if hasattr(r, "__await__"):
        import asyncio

        async def w() -> Any:
            return await r

        return asyncio.run(w())
    return r


# ------------------------------------------------------------------------------------------------ C11
@watchdog(lambda cfg: "C11")
def run_c11(cfg: HCfg, c: Ctx) -> Any:
    from tawazi import Resource, dag, xn
    from tawazi.errors import TawaziBaseException

    N = cfg.N
    labels = ["n%d" % i for i in range(N)]
    deps = _edges(c, labels)
    desc, anc = closure(labels, deps)
    is_setup = {l: bool(c.choose(2, "setup")) for l in labels}
    # a dependency-free node takes the DAG input, a constant, or nothing at all (then it is a root of the id graph)
    flag_of: Dict[str, str] = {}  # node -> source of its twz_active flag ("IN" = the DAG input, else a node label)
    if cfg.length == 0:
        # build-validation only: every combination
        # (dinput: the node takes the DAG's second, defaulted parameter)
        root_kind = {l: (("input", "const", "none", "dinput")[c.choose(4, "rootkind")] if not deps[l] else None) for l in labels}
        lead_const = bool(c.choose(2, "lead_const"))  # nodes with dependencies also take a constant first
        pairs = [("IN", l) for l in labels] + [(labels[j], labels[i]) for i in range(N) for j in range(i)]
        k = c.choose(len(pairs) + 1, "flag")
        if k:
            flag_of[pairs[k - 1][1]] = pairs[k - 1][0]
    else:
        pattern = ("const", "none", "input-for-non-setup")[c.choose(3, "rootpattern")]
        root_kind = {l: (None if deps[l] else (pattern if pattern != "input-for-non-setup" else ("const" if is_setup[l] else "input"))) for l in labels}
        lead_const = True
    takes_input = {l: root_kind[l] in ("input", "dinput") for l in labels}
    flavour = cfg.flavours[c.choose(len(cfg.flavours), "flavour")] if len(cfg.flavours) > 1 else cfg.flavours
    # the history
    graph_roots = [l for l in labels if root_kind[l] == "none"]
    OPS = ["call", "setup", "exec"] + ["exec:" + l for l in labels] + ["setup:" + l for l in labels] + ["setup:[]"] + (["deepcopy"] if cfg.deepcopy else [])
    OPS += ["execsetup:" + l for l in labels]  # executor(target_nodes=[l]).setup(): the setup nodes that selection needs
    OPS += ["hold", "runheld"]  # an executor of the whole DAG is created now and run by a later operation
    OPS += ["config"]  # config_from_dict naming every node (a new priority): what setup nodes produced so far is kept
    if graph_roots:
        OPS.append("setupRT:%s:%s" % (graph_roots[0], labels[-1]))  # setup(root_nodes=[r], target_nodes=[t])
    returns_none = bool(is_setup[labels[0]] and c.choose(2, "returns_none"))  # the first setup node returns None
    hist = [OPS[c.choose(len(OPS), "op")] for _ in range(cfg.length)]
    c.heavy()
    invalid = any(is_setup[l] and (takes_input[l] or any(not is_setup[d] for d in deps[l])
                                   or flag_of.get(l) == "IN" or (l in flag_of and flag_of[l] != "IN" and not is_setup[flag_of[l]]))
                  for l in labels)
    cnt = InstCounter()
    idents: List[Tuple[str, int]] = []
    import threading

    def make(l: str) -> Any:
        def fn(*args):  # type: ignore[no-untyped-def]
            g = cnt.hit(l)
            idents.append((l, threading.get_ident()))
            parts = [lift(a) for a in args]
            if is_setup[l]:
                parts.append(lift(g))  # generation stamp: a second execution would produce a different value
            v = None if (returns_none and l == labels[0]) else SymVal(vapp("f_" + l, parts))
            cnt.first.setdefault((cnt.inst, l), v)
            return v

        fn.__name__ = fn.__qualname__ = l
        return fn

    xns = {l: xn(make(l), setup=is_setup[l], resource=Resource.main_thread) for l in labels}

    def args_of(l: str, x: Any, r: Dict[str, Any], y: Any = None) -> List[Any]:
        if not deps[l]:
            if root_kind[l] == "dinput":
                return [y]
            return [x] if root_kind[l] == "input" else ([7] if root_kind[l] == "const" else [])
        return ([7] if lead_const else []) + [r[d] for d in deps[l]]

    def pipe(x, y=None):  # type: ignore[no-untyped-def]
        r: Dict[str, Any] = {}
        for l in labels:
            kw = {}
            if l in flag_of:
                kw["twz_active"] = x if flag_of[l] == "IN" else r[flag_of[l]]
            r[l] = xns[l](*args_of(l, x, r, y), **kw)
        return tuple(r[l] for l in labels)

    pipe.__qualname__ = pipe.__name__ = "pipe"
    data: Dict[str, Any] = {"deps": deps, "setup": is_setup, "root_kind": root_kind, "lead_const": lead_const, "flag_of": flag_of, "takes_input": takes_input, "history": hist, "flavour": flavour, "returns_none": returns_none}
    try:
        d = dag(pipe, is_async=(flavour == "a"))
        built = True
    except SXControl:
        raise
    except TawaziBaseException:
        built = False
    if invalid:
        c.check(not built, "a DAG whose setup node depends on a non-setup node or on a DAG argument was accepted", prop="C11", data=data)
        c.cover("w_invalid_rejected")
        return {"case": "rejected", **data}
    c.check(built, "valid setup placement rejected at build", prop="C11", data=data)
    setups = [l for l in labels if is_setup[l]]
    # reference state per instance: which setup nodes are done and with which value
    inst_of = {0: d}
    held: Dict[int, Any] = {}
    cur = 0
    done: Dict[int, Dict[str, Any]] = {0: {}}
    next_inst = 1
    for step, op in enumerate(hist):
        cnt.inst = cur
        cnt.op_entered = []
        dd = inst_of[cur]
        X = c.val("x%d" % step)
        name, _, arg = op.partition(":")
        before_done = dict(done[cur])
        if name == "deepcopy":
            inst_of[next_inst] = copy.deepcopy(dd)
            done[next_inst] = dict(done[cur])
            cur = next_inst
            next_inst += 1
            c.cover("w_deepcopy")
            continue
        if name == "hold":
            held[cur] = dd.executor()
            continue
        if name == "config":
            dd.config_from_dict({"nodes": {l: {"priority": step + 1} for l in labels}, "max_concurrency": 2})
            if before_done:
                c.cover("w_config_after_setup")
            continue
        if name == "runheld":
            if held.get(cur) is None:
                continue
            sel = set(labels)
            out = _run(held.pop(cur), X)
            c.cover("w_held_executor")
        elif name == "call":
            sel = set(labels)
            out = _run(dd, X)
        elif name == "exec":
            sel = set(labels) if not arg else ({arg} | anc[arg])
            ex = dd.executor(target_nodes=[arg]) if arg else dd.executor()
            out = _run(ex, X)
        elif name == "setupRT":
            rr, _, tt = arg.partition(":")
            cone = {rr} | desc[rr]
            c.assume(tt in cone)  # (a target outside the part selected by the roots is a caller error)
            sel = {l for l in cone if (l == tt or l in anc[tt]) and is_setup[l]}
            r = dd.setup(target_nodes=[tt], root_nodes=[rr])
            if hasattr(r, "__await__"):
                import asyncio

                async def w2(r: Any = r) -> Any:
                    return await r

                asyncio.run(w2())
            out = None
            c.cover("w_setup_root_target")
        else:  # setup
            if name == "execsetup":
                sel = {l for l in ({arg} | anc[arg]) if is_setup[l]}
                r = dd.executor(target_nodes=[arg]).setup()
                c.cover("w_executor_setup")
            elif arg == "[]":
                sel = set()
                r = dd.setup(target_nodes=[])
            else:
                sel = set(setups) if not arg else {l for l in ({arg} | anc[arg]) if is_setup[l]}
                r = dd.setup(target_nodes=[arg]) if arg else dd.setup()
            if hasattr(r, "__await__"):
                import asyncio

                async def w(r: Any = r) -> Any:
                    return await r

                asyncio.run(w())
            out = None
        entered = list(cnt.op_entered)
        # the nodes use the main-thread resource: they run on the thread that invoked the operation
        wrong = [l for l, t in idents if t != threading.get_ident()]
        c.check(not wrong, "main-thread nodes %s ran on another thread than the one that invoked %s" % (wrong, op), prop="C11", data={**data, "step": step, "op": op})
        idents.clear()
        want_setup_run = [l for l in setups if l in sel and l not in before_done]
        want_run = sorted(want_setup_run + ([l for l in labels if not is_setup[l] and l in sel] if name not in ("setup", "setupRT", "execsetup") else []))
        d2 = {**data, "step": step, "op": op, "entered": entered, "done_before": sorted(before_done)}
        for l in setups:
            c.check(cnt.n.get((cur, l), 0) <= 1, "setup node %s executed %d times on one DAG instance" % (l, cnt.n.get((cur, l), 0)), prop="C11", data=d2)
        c.check(sorted(entered) == want_run, "operation %s executed %s, expected exactly %s (setup nodes at most once, only what the selection needs)" % (op, sorted(entered), want_run),
                prop="C11", data=d2)
        for l in want_setup_run:
            done[cur][l] = cnt.first[(cur, l)]
        if out is not None:
            # reference values: setup nodes keep their first value, the others are recomputed from this call's argument
            val: Dict[str, Any] = {}
            for l in labels:
                if l not in sel:
                    val[l] = done[cur].get(l) if is_setup[l] else None
                    continue
                if is_setup[l]:
                    val[l] = done[cur][l]
                    continue
                args = args_of(l, X, val)
                val[l] = SymVal(vapp("f_" + l, [lift(a) for a in args]))
            c.check(veq(out, tuple(val[l] for l in labels)), "operation %s returned values that do not reuse the first setup results / are not this call's results" % op,
                    prop="C11", data={**d2, "got": out, "want": tuple(val[l] for l in labels)})
        if setups and before_done and name not in ("setup", "setupRT", "execsetup"):
            c.cover("w_reuse")
    if cfg.twin:
        c.check(False, "reachability twin: the end of the harness is reachable", prop="TWIN")
    c.cover("states", hash(repr(data)))
    return data


# ------------------------------------------------------------------------------------------------ C15
@watchdog(lambda cfg: "C15")
def run_c15(cfg: HCfg, c: Ctx) -> Any:
    # (scratch files of a path are removed however the path ends: a fork of the engine aborts the execution)
    box: Dict[str, str] = {}
    try:
        return _run_c15_body(cfg, c, box)
    finally:
        import shutil

        for pth in box.values():
            if os.path.isdir(pth):
                shutil.rmtree(pth, ignore_errors=True)
            elif os.path.exists(pth):
                os.unlink(pth)


def _run_c15_body(cfg: HCfg, c: Ctx, box: Dict[str, str]) -> Any:
    from tawazi import Resource, dag, xn
    from tawazi.errors import TawaziBaseException, TawaziUsageError

    import warnings

    warnings.simplefilter("ignore")
    labels = ["n0", "n1", "n2"]
    shape = c.choose(3, "program")
    flavour = cfg.flavours[c.choose(len(cfg.flavours), "flavour")] if len(cfg.flavours) > 1 else cfg.flavours
    OPS = ["call1", "call2", "failcall", "exec_new", "exec_new:n1", "exec_run", "exec_failrun", "compose", "config", "setup:n2", "setup:", "setup:[]", "exec_new:!cache"]
    if cfg.ops == "noargsetup":  # (the async part: without the two setup forms that name a target list)
        OPS = [o for o in OPS if o not in ("setup:n2", "setup:[]")]
    if cfg.ops == "exec":
        OPS = ["call1", "exec_new", "exec_new:n1", "exec_run", "exec_failrun", "exec_new:!cache"]
    hist = [OPS[c.choose(len(OPS), "op")] for _ in range(cfg.length)] + [("call1", "call2")[c.choose(2, "last")]]
    fail_node = labels[c.choose(3, "failnode")] if any("fail" in o for o in hist) else None
    # an executor operation needs an executor
    seen_exec = False
    for o in hist:
        if o.startswith("exec_new"):
            seen_exec = True
        elif o.startswith("exec_"):
            c.assume(seen_exec)
    c.heavy()
    state = {"fail": None}
    entered: List[str] = []

    class Boom(Exception):
        pass

    def make(l: str) -> Any:
        def fn(*args, **kwargs):  # type: ignore[no-untyped-def]
            entered.append(l)
            if state["fail"] == l:
                raise Boom(l)
            parts = [lift(a) for a in args]
            for k in sorted(kwargs):
                parts += [lift("kw:" + k), lift(kwargs[k])]
            return SymVal(vapp("f_" + l, parts))

        fn.__name__ = fn.__qualname__ = l
        return fn

    fns = {l: make(l) for l in labels}
    xns = {l: xn(fns[l], resource=Resource.main_thread) for l in labels}

    def body(F: Dict[str, Any], a: Any, b: Any, plain: bool) -> Any:
        if shape == 0:  # chain with a keyword use and a constant
            r0 = F["n0"](a, b)
            r1 = F["n1"](5, k=r0)
            r2 = F["n2"](r1, 5)
        elif shape == 1:  # diamond with an activation flag taken from the input
            r0 = F["n0"](a)
            if plain:
                r1 = F["n1"](r0) if b else None
            else:
                r1 = F["n1"](r0, twz_active=b)
            r2 = F["n2"](r0, r1)
        else:  # independent nodes, indexed use
            r0 = F["n0"](b)
            r1 = F["n1"](a)
            r2 = F["n2"](r1[0], r0)
        return r0, r1, r2

    def pipe(a, b=11):  # type: ignore[no-untyped-def]
        return body(xns, a, b, False)

    pipe.__qualname__ = pipe.__name__ = "pipe"
    d = dag(pipe, is_async=(flavour == "a"))
    data: Dict[str, Any] = {"program": shape, "history": hist, "fail_node": fail_node, "flavour": flavour}
    ex: Any = None
    ex_sel: Optional[str] = None
    ex_badcache = False
    ex_state = "none"  # none | fresh | succeeded | failed
    bad_parent = ""
    for step, op in enumerate(hist):
        A, B = c.val("a%d" % step), c.val("b%d" % step)
        entered.clear()
        d2 = {**data, "step": step, "op": op}
        name, _, arg = op.partition(":")

        def reference(args: Tuple[Any, ...], only: Optional[Set[str]] = None) -> Any:
            saved = list(entered)
            try:
                r = body(fns, args[0], args[1] if len(args) > 1 else 11, True)
            finally:
                entered[:] = saved
            if only is not None:
                r = tuple(v if l in only else None for l, v in zip(labels, r))
            return r

        if name in ("call1", "call2", "failcall"):
            args = (A,) if name == "call1" else (A, B)
            state["fail"] = fail_node if name == "failcall" else None
            try:
                out = ("value", _run(d, *args))
            except SXControl:
                raise
            except TawaziBaseException as e:
                out = ("raise", e)
            except BaseException as e:
                out = ("raise", e)
            finally:
                state["fail"] = None
            if name == "failcall":
                # whether the failing node is reached depends on the program (a deactivated node does not fail)
                reached = fail_node in entered
                if reached:
                    c.check(out[0] == "raise", "a call whose node failed returned normally", prop="C15", data=d2)
                    c.cover("w_failed_call")
                    continue
            c.check(out[0] == "value", "call raised %r" % (out[1],), prop="C15", data=d2)
            want = reference(args)
            c.check(veq(out[1], want), "call #%d does not return the result for its own arguments (as a freshly built DAG would)" % step, prop="C15",
                    data={**d2, "got": out[1], "want": want})
            if step == len(hist) - 1:
                c.cover("w_final_call")
        elif name == "exec_new":
            if arg == "!cache":
                # an executor whose cache file cannot be written (the parent of the path is a regular file): the run fails
                # after its nodes ran, at the point where the results are stored
                if not bad_parent:
                    fd, bad_parent = tempfile.mkstemp(prefix="sxc15")
                    os.close(fd)
                    box["bad_parent"] = bad_parent
                ex = d.executor(cache_in=os.path.join(bad_parent, "cache.pkl"))
                ex_sel = None
                ex_badcache = True
            else:
                ex = d.executor(target_nodes=[arg]) if arg else d.executor()
                ex_sel = arg or None
                ex_badcache = False
            ex_state = "fresh"
        elif name in ("exec_run", "exec_failrun"):
            if ex is None:
                continue
            state["fail"] = fail_node if name == "exec_failrun" else None
            try:
                out = ("value", _run(ex, A, B))
            except SXControl:
                raise
            except BaseException as e:
                out = ("raise", e)
            finally:
                state["fail"] = None
            only = None if ex_sel is None else {"n0", "n1"} if shape != 2 else {"n1"}
            want = reference((A, B), only)
            if ex_badcache and ex_state != "succeeded" and out[0] == "raise" and isinstance(out[1], OSError):
                # the fault injected at the cache write: the run counts as failed (a later run refuses or starts from scratch)
                # ("the user repairs the path": from now on the file can be written)
                ex_state = "failed"
                c.cover("w_cache_write_failed")
                if os.path.isfile(bad_parent):
                    os.unlink(bad_parent)
                continue
            if ex_badcache and out[0] == "value" and os.path.isfile(bad_parent):
                c.check(False, "an executor run whose cache file cannot be written returned normally", prop="C15", data=d2)
            if ex_state == "succeeded":
                c.check(out[0] == "raise" and isinstance(out[1], TawaziUsageError), "an executor that already ran successfully ran again: %r" % (out,), prop="C15", data=d2)
                c.cover("w_refused_rerun")
            elif name == "exec_failrun" and fail_node in entered:
                c.check(out[0] == "raise", "an executor run whose node failed returned normally", prop="C15", data=d2)
                ex_state = "failed"
                c.cover("w_failed_exec")
            else:
                # fresh executor, or re-run after a failed run: refuse, or run the complete selection from scratch
                if out[0] == "raise":
                    c.check(ex_state == "failed" and isinstance(out[1], TawaziUsageError), "executor run raised %r" % (out[1],), prop="C15", data=d2)
                    c.cover("w_refused_after_failure")
                else:
                    c.check(veq(out[1], want), "executor returned a result that is not the complete selection computed from scratch for its own arguments",
                            prop="C15", data={**d2, "got": out[1], "want": want, "executor_state": ex_state})
                    if ex_state == "failed":
                        c.cover("w_rerun_after_failure")
                    ex_state = "succeeded"
        elif name == "compose":
            try:
                cd = d.compose("cmp", [xns["n0"], xns["n1"]], [xns["n2"]]) if shape == 2 else d.compose("cmp", [xns["n0"]], [xns["n2"]])
                _run(cd, A, B) if shape == 2 else _run(cd, A)
            except SXControl:
                raise
            except BaseException:
                pass  # (what a composed DAG computes or refuses is C19's subject)
            c.cover("w_compose")
        elif name == "config":
            d.config_from_dict({"nodes": {"n1": {"priority": 1 - 2 * (step % 2), "is_sequential": bool(step % 2)}}, "max_concurrency": 1 + step % 2})
            c.cover("w_config")
        elif name == "setup":
            # the programs have no setup node: DAG.setup(target_nodes=[...]) has nothing to run and nothing to remember
            try:
                # ("setup:" is the argument-less d.setup(), "setup:[]" an empty target list)
                r = d.setup() if arg == "" else d.setup(target_nodes=[]) if arg == "[]" else d.setup(target_nodes=[arg])
                if hasattr(r, "__await__"):
                    import asyncio

                    async def ws(r: Any = r) -> Any:
                        return await r

                    asyncio.run(ws())
                out = ("value", None)
            except SXControl:
                raise
            except BaseException as e:
                out = ("raise", e)
            c.check(out[0] == "value", "setup(target_nodes=[%s]) raised %r on a DAG without setup nodes" % (arg, out[1]), prop="C15", data=d2)
            c.check(not entered, "setup(target_nodes=[%s]) ran %s on a DAG without setup nodes" % (arg, entered), prop="C15", data=d2)
            c.cover("w_setup_op")
    if cfg.twin:
        c.check(False, "reachability twin: the end of the harness is reachable", prop="TWIN")
    c.cover("states", hash(repr(data)))
    return data


# ------------------------------------------------------------------------------------------------ C15: arguments and setup nodes
SETUP_INPUT_ROUTES = ("positional", "keyword", "flag", "indexed-flag", "defaulted-argument-flag", "through-node-flag")


@watchdog(lambda cfg: "C15")
def run_c15_setup_inputs(cfg: HCfg, c: Ctx) -> Any:
    """Setup results are the one thing a DAG keeps between calls, so a call argument must not be able to reach a setup node.
    Every route is either refused when the DAG is built or, if accepted, the second call still behaves like a fresh DAG."""
    from tawazi import Resource, dag, xn
    from tawazi.errors import TawaziBaseException

    route = SETUP_INPUT_ROUTES[c.choose(len(SETUP_INPUT_ROUTES), "route")]
    flavour = cfg.flavours[c.choose(len(cfg.flavours), "flavour")] if len(cfg.flavours) > 1 else cfg.flavours

    def make(l: str) -> Any:
        def fn(*args, **kwargs):  # type: ignore[no-untyped-def]
            parts = [lift(a) for a in args]
            for k in sorted(kwargs):
                parts += [lift("kw:" + k), lift(kwargs[k])]
            return SymVal(vapp("f_" + l, parts))

        fn.__name__ = fn.__qualname__ = l
        return fn

    def build() -> Any:
        load = xn(make("load"), setup=True, resource=Resource.main_thread)
        pre = xn(make("pre"), resource=Resource.main_thread)
        use = xn(make("use"), resource=Resource.main_thread)

        def pipe(a, b=11):  # type: ignore[no-untyped-def]
            if route == "positional":
                m = load(a)
            elif route == "keyword":
                m = load(k=a)
            elif route == "flag":
                m = load(twz_active=a)
            elif route == "indexed-flag":
                m = load(twz_active=a[0])
            elif route == "defaulted-argument-flag":
                m = load(twz_active=b)
            else:
                m = load(twz_active=pre(a))
            return use(m, a)

        pipe.__qualname__ = pipe.__name__ = "pipe"
        return dag(pipe, is_async=(flavour == "a"))

    data: Dict[str, Any] = {"route": route, "flavour": flavour}
    try:
        d = build()
    except SXControl:
        raise
    except TawaziBaseException:
        c.cover("w_refused")
        if cfg.twin:
            c.check(False, "reachability twin: the end of the harness is reachable", prop="TWIN")
        return {"case": "refused at build time", **data}
    fresh = build()
    A0, B0, A1, B1 = c.val("a0"), c.val("b0"), c.val("a1"), c.val("b1")
    _run(d, A0, B0)
    got = _run(d, A1, B1)
    want = _run(fresh, A1, B1)
    c.check(veq(got, want), "a DAG whose setup node is reached by a call argument (%s) was accepted and its second call does not behave like a freshly built DAG" % route,
            prop="C15", data={**data, "got": got, "want": want})
    c.cover("w_accepted")
    return {"case": "accepted", **data}


# ------------------------------------------------------------------------------------------------ C09: operations after a failed operation
@watchdog(lambda cfg: cfg.prop or "C09")
def run_c09_after_failures(cfg: HCfg, c: Ctx) -> Any:
    """Every operation returns or raises, also after an earlier operation on the same (or another) DAG failed: setup() with a
    failing setup node, failing calls and failing executor runs, followed by setup(), calls, executors.  (A call that blocks
    for ever is caught by the wall-clock deadline of the harness.)"""
    from tawazi import Resource, dag, xn
    from tawazi.errors import TawaziBaseException

    PROP = cfg.prop or "C09"
    flavour = cfg.flavours[c.choose(len(cfg.flavours), "flavour")] if len(cfg.flavours) > 1 else cfg.flavours
    OPS = ["setup", "setup_fail:s0", "setup_fail:s1", "call", "call_fail:s1", "call_fail:n", "exec_setup", "other_setup", "other_call", "call_toomany", "exec_toomany"]
    hist = [OPS[c.choose(len(OPS), "op")] for _ in range(cfg.length)] + ["setup", "call"]
    c.assume(any("fail" in o or "toomany" in o for o in hist))
    res = (Resource.main_thread, Resource.thread)[c.choose(2, "resource")]
    c.heavy()
    state = {"fail": None}
    entered: List[str] = []

    class Boom(Exception):
        pass

    def make(l: str) -> Any:
        def fn(*args):  # type: ignore[no-untyped-def]
            entered.append(l)
            if state["fail"] == l:
                raise Boom(l)
            return SymVal(vapp("f_" + l, [lift(a) for a in args]))

        fn.__name__ = fn.__qualname__ = l
        return fn

    def build(name: str) -> Any:
        s0 = xn(make("s0"), setup=True, resource=res)
        s1 = xn(make("s1"), setup=True, resource=res)
        n = xn(make("n"), resource=res)

        def pipe(x):  # type: ignore[no-untyped-def]
            a = s0(7)
            b = s1(a)
            return n(b, x)

        pipe.__qualname__ = pipe.__name__ = name
        return dag(pipe, is_async=(flavour == "a"), max_concurrency=2)

    d, other = build("pipe"), build("other")
    data: Dict[str, Any] = {"history": hist, "flavour": flavour, "resource": res.value}
    for step, op in enumerate(hist):
        name, _, arg = op.partition(":")
        target = other if name.startswith("other_") else d
        kind = name.replace("other_", "")
        state["fail"] = arg or None
        entered.clear()
        X = c.val("x%d" % step)
        try:
            if kind in ("setup", "setup_fail"):
                r = target.setup()
            elif kind == "exec_setup":
                r = target.executor().setup()
            elif kind == "call_toomany":
                r = target(X, 1, 2)  # invalid arguments: refused, and nothing of the refusal may stick to the DAG
            elif kind == "exec_toomany":
                r = target.executor()(X, 1, 2)
            else:
                r = target(X)
            if hasattr(r, "__await__"):
                import asyncio

                async def w(r: Any = r) -> Any:
                    return await r

                r = asyncio.run(w())
            out: Any = ("value", r)
        except SXControl:
            raise
        except (TawaziBaseException, Boom) as e:
            out = ("raise", e)
        except TypeError as e:
            if "toomany" not in kind:
                raise
            out = ("raise", e)
        finally:
            state["fail"] = None
        d2 = {**data, "step": step, "op": op, "entered": list(entered)}
        failed_here = (bool(arg) and arg in entered) or "toomany" in kind
        if failed_here:
            c.check(out[0] == "raise", "operation %s returned normally although %s raised" % (op, arg), prop=PROP, data=d2)
            c.cover("w_failed_operation")
        else:
            c.check(out[0] == "value", "operation %s raised %r although no node failed" % (op, out[1]), prop=PROP, data=d2)
            if kind == "call":
                want = SymVal(vapp("f_n", [lift(SymVal(vapp("f_s1", [lift(SymVal(vapp("f_s0", [lift(7)])))]))), lift(X)]))
                c.check(veq(out[1], want), "call returned something else than the plain evaluation", prop=PROP, data={**d2, "got": out[1], "want": want})
    c.cover("w_operations_after_failure")
    c.cover("states", hash(repr(data)))
    if cfg.twin:
        c.check(False, "reachability twin: the end of the harness is reachable", prop="TWIN")
    return data


# ------------------------------------------------------------------------------------------------ C17: the same history on both flavours
@watchdog(lambda cfg: "C17")
def run_c17_same_history(cfg: HCfg, c: Ctx) -> Any:
    """One history of operations (calls, failing calls, invalid calls, executor creations / runs / failing runs / re-runs,
    setup) is applied to the DAG and to the AsyncDAG built from the same function; after every step both must have done the
    same thing: the same value, or an exception of the same type, and the same node functions entered."""
    from tawazi import Resource, dag, xn
    from tawazi.errors import TawaziBaseException

    OPS = ["call", "call_default", "failcall", "toomany", "exec_new", "exec_new:n1", "exec_run", "exec_failrun", "exec_toomany", "setup"]
    hist = [OPS[c.choose(len(OPS), "op")] for _ in range(cfg.length)] + ["call"]
    seen = False
    for o in hist:
        if o.startswith("exec_new"):
            seen = True
        elif o.startswith("exec_"):
            c.assume(seen)
    fail_node = ("s0", "n1", "n2")[c.choose(3, "failnode")] if any("fail" in o for o in hist) else None
    c.heavy()
    state = {"fail": None}
    entered: List[str] = []

    class Boom(Exception):
        pass

    def make(l: str) -> Any:
        def fn(*args, **kwargs):  # type: ignore[no-untyped-def]
            entered.append(l)
            if state["fail"] == l:
                raise Boom(l)
            parts = [lift(a) for a in args]
            for k in sorted(kwargs):
                parts += [lift("kw:" + k), lift(kwargs[k])]
            return SymVal(vapp("f_" + l, parts))

        fn.__name__ = fn.__qualname__ = l
        return fn

    def build(is_async: bool) -> Any:
        s0 = xn(make("s0"), setup=True, resource=Resource.main_thread)
        n1 = xn(make("n1"), resource=Resource.main_thread)
        n2 = xn(make("n2"), resource=Resource.main_thread)

        def pipe(a, b=11):  # type: ignore[no-untyped-def]
            m = s0(7)
            r1 = n1(a, k=m)
            r2 = n2(r1[0], b)
            return r1, r2

        pipe.__qualname__ = pipe.__name__ = "pipe"
        return dag(pipe, is_async=is_async)

    dags = {"s": build(False), "a": build(True)}
    execs: Dict[str, Any] = {"s": None, "a": None}
    data: Dict[str, Any] = {"history": hist, "fail_node": fail_node}

    def apply(fl: str, op: str, A: Any, B: Any) -> Tuple[str, Any, List[str]]:
        name, _, arg = op.partition(":")
        d = dags[fl]
        state["fail"] = fail_node if "fail" in name else None
        entered.clear()
        try:
            if name == "call":
                r = _run(d, A, B)
            elif name == "call_default":
                r = _run(d, A)
            elif name == "failcall":
                r = _run(d, A, B)
            elif name == "toomany":
                r = _run(d, A, B, 3)
            elif name == "exec_new":
                execs[fl] = d.executor(target_nodes=[arg]) if arg else d.executor()
                r = None
            elif name in ("exec_run", "exec_failrun"):
                r = _run(execs[fl], A, B)
            elif name == "exec_toomany":
                r = _run(execs[fl], A, B, 3)
            else:
                r = _run_setup(d)
            out: Tuple[str, Any] = ("value", r)
        except SXControl:
            raise
        except (TawaziBaseException, Boom, TypeError) as e:
            out = ("raise", type(e).__name__)
        finally:
            state["fail"] = None
        return out[0], out[1], list(entered)

    for step, op in enumerate(hist):
        A, B = c.val("a%d" % step), c.val("b%d" % step)
        rs = apply("s", op, A, B)
        ra = apply("a", op, A, B)
        d2 = {**data, "step": step, "op": op, "sync": rs, "async": ra}
        c.check(rs[0] == ra[0], "operation %s: the DAG %s (%r), the AsyncDAG %s (%r)" % (op, "returned" if rs[0] == "value" else "raised", rs[1], "returned" if ra[0] == "value" else "raised", ra[1]), prop="C17", data=d2)
        if rs[0] == "raise":
            c.check(rs[1] == ra[1], "operation %s raised %s on the DAG and %s on the AsyncDAG" % (op, rs[1], ra[1]), prop="C17", data=d2)
        else:
            c.check(veq(rs[1], ra[1]), "operation %s returned different values on the DAG and on the AsyncDAG" % op, prop="C17", data=d2)
        c.check(sorted(rs[2]) == sorted(ra[2]), "operation %s entered %s on the DAG and %s on the AsyncDAG" % (op, sorted(rs[2]), sorted(ra[2])), prop="C17", data=d2)
        if rs[0] == "raise":
            c.cover("w_raised_on_both")
    for fl in ("s", "a"):
        pass
    c.check(sorted(k for k in dags["s"].results) == sorted(k for k in dags["a"].results), "the DAG and the AsyncDAG recorded different setup results", prop="C17", data=data)
    c.cover("w_same_history")
    c.cover("states", hash(repr(data)))
    if cfg.twin:
        c.check(False, "reachability twin: the end of the harness is reachable", prop="TWIN")
    return data


def _run_setup(d: Any) -> Any:
    r = d.setup()
    if hasattr(r, "__await__"):
        import asyncio

        async def w() -> Any:
            return await r

        return asyncio.run(w())
    return r


# ------------------------------------------------------------------------------------------------ C18
@watchdog(lambda cfg: "C18")
def run_c18(cfg: HCfg, c: Ctx) -> Any:
    from tawazi import Resource, dag, xn

    N = cfg.N
    labels = ["n%d" % i for i in range(N)]
    deps = _edges(c, labels)
    desc, anc = closure(labels, deps)
    setup0 = bool(not deps[labels[0]] and c.choose(2, "setup"))
    takes_input = {l: (not deps[l] and not (setup0 and l == labels[0]) and bool(c.choose(2, "input"))) for l in labels}
    # caching run selection, restart selection, optional second round on the same file
    sels = ["whole"] + ["target:" + l for l in labels] + ["deps_of:" + l for l in labels]
    sels += ["deps_of:%s,%s" % (labels[i], labels[j]) for i in range(N) for j in range(i + 1, N)]  # cache_deps_of=[a, b]
    flavour = cfg.flavours[c.choose(len(cfg.flavours), "flavour")] if len(cfg.flavours) > 1 else cfg.flavours
    sel1 = sels[c.choose(len(sels), "sel1")]
    # the restart uses the same selection, the whole DAG, or a target selection of its own
    rmode = c.choose(3, "restart_selection")
    restart_same_sel = rmode == 0
    restart_other = ("target:" + labels[c.choose(N, "restart_target")]) if rmode == 2 else None
    omit_args = bool(rmode != 2 and c.choose(2, "restart_without_arguments"))  # the restart relies on the DAG inputs stored in the cache
    restart_on_copy = bool(c.choose(2, "restart_on_copy"))
    second_round = bool(cfg.length >= 4 and c.choose(2, "second_round"))
    sel2 = sels[c.choose(len(sels), "sel2")] if second_round else None
    none_node = labels[c.choose(N, "returns_none")] if c.choose(2, "has_none_node") else None  # a node whose result is None
    c.heavy()
    entered: List[str] = []

    stamp = [False]
    executions = [0]

    def value_of(l: str, args: Any) -> Any:
        if l == none_node:
            return None
        extra = []
        if stamp[0] and setup0 and l == labels[0]:
            executions[0] += 1
            extra = [lift(executions[0])]  # which execution of the setup node produced the value
        return SymVal(vapp("f_" + l, [lift(a) for a in args] + extra))

    def make(l: str) -> Any:
        def fn(*args):  # type: ignore[no-untyped-def]
            entered.append(l)
            return value_of(l, args)

        fn.__name__ = fn.__qualname__ = l
        return fn

    xns = {l: xn(make(l), setup=(setup0 and l == labels[0]), resource=Resource.main_thread) for l in labels}

    def pipe(x=11):  # type: ignore[no-untyped-def]  # (a default: a restart that omits x must still see the cached input)
        r: Dict[str, Any] = {}
        for l in labels:
            args = ([x] if takes_input[l] else ([7] if not deps[l] else [])) + [r[d] for d in deps[l]]
            r[l] = xns[l](*args)
        return tuple(r[l] for l in labels)

    pipe.__qualname__ = pipe.__name__ = "pipe"
    d = dag(pipe, is_async=(flavour == "a"))
    pristine = copy.deepcopy(d)  # an instance on which nothing ever ran (stands for a new process)
    tmp = tempfile.mkdtemp(prefix="sxc18")
    path = os.path.join(tmp, "cache.pkl")
    data: Dict[str, Any] = {"deps": deps, "setup0": setup0, "takes_input": takes_input, "sel1": sel1, "restart_same_sel": restart_same_sel, "flavour": flavour,
                            "restart_on_copy": restart_on_copy, "sel2": sel2}

    def kw_of(sel: str) -> Dict[str, Any]:
        kind, _, x = sel.partition(":")
        if kind == "target":
            return {"target_nodes": [x]}
        if kind == "deps_of":
            return {"cache_deps_of": x.split(",")}
        return {}

    def members(sel: str) -> List[str]:
        return sel.partition(":")[2].split(",") if ":" in sel else []

    def selected(sel: str) -> Set[str]:
        kind = sel.partition(":")[0]
        if kind == "whole":
            return set(labels)
        out: Set[str] = set()
        for x in members(sel):
            out |= {x} | anc[x]
        return out

    try:
        rounds = [(sel1, d)] + ([(sel2, d)] if second_round else [])
        setup_done_on_d = False
        for rnd, (sel, inst) in enumerate(rounds):
            # ---- caching run
            X1 = c.val("x_cache%d" % rnd)
            entered.clear()
            out1 = _run(inst.executor(cache_in=path, **kw_of(sel)), X1)
            if setup0 and labels[0] in selected(sel):
                setup_done_on_d = True
            with open(path, "rb") as f:
                content = pickle.load(f)
            file_ids = {k for k in content if k in labels}
            kind, _, x = sel.partition(":")
            want_file = (selected(sel) | ({labels[0]} if setup_done_on_d else set())) - (set(members(sel)) if kind == "deps_of" else set())
            d2 = {**data, "round": rnd, "file": sorted(file_ids)}
            c.check(file_ids == want_file, "cache file holds results of %s, expected %s" % (sorted(file_ids), sorted(want_file)), prop="C18", data=d2)
            # ---- restart
            target = copy.deepcopy(pristine) if restart_on_copy else inst
            setup_done_on_target = setup_done_on_d and not restart_on_copy
            rsel = sel if restart_same_sel else (restart_other or "whole")
            rkw = kw_of(rsel)
            X2 = c.val("x_restart%d" % rnd)
            entered.clear()
            # optionally the restarted execution writes a cache of its own, from which a third execution restarts
            chained = bool(rsel == "whole" and c.choose(2, "chained"))
            path2 = os.path.join(tmp, "cache2.pkl")
            rex = target.executor(from_cache=path, **rkw, **({"cache_in": path2} if chained else {}))
            if omit_args and any(str(k).endswith(">!>x") for k in content):
                out2 = _run(rex)
                X2 = X1  # the cached DAG input is what the re-executed nodes see
                c.cover("w_restart_without_arguments")
            else:
                out2 = _run(rex, X2)
            ran = list(entered)
            if chained:
                with open(path2, "rb") as f:
                    content2 = pickle.load(f)
                os.unlink(path2)
                ids2 = {k for k in content2 if k in labels}
                c.check(ids2 == set(labels), "the cache written by a restarted whole-DAG execution holds %s, expected every node" % sorted(ids2), prop="C18",
                        data={**d2, "second_file": sorted(ids2)})
                with open(path2, "wb") as f:
                    pickle.dump(content2, f)
                entered.clear()
                out3 = _run(copy.deepcopy(pristine).executor(from_cache=path2), c.val("x_third%d" % rnd))
                ran3 = list(entered)
                os.unlink(path2)
                c.check(not ran3, "an execution restarted from the second cache executed %s although every result is cached" % sorted(ran3), prop="C18", data={**d2, "ran": ran3})
                c.check(veq(out3, out2), "an execution restarted from the second cache returned other values than the execution that wrote it", prop="C18",
                        data={**d2, "got": out3, "want": out2})
                entered[:] = ran
                c.cover("w_chained_caches")
            # an executor is single use, also when it was started from a cache
            try:
                _run(rex, c.val("x_again%d" % rnd))
                again: Any = "ran again"
            except SXControl:
                raise
            except BaseException as e:
                again = e
            c.check(type(again).__name__ == "TawaziUsageError", "an executor started from a cache ran a second time: %r" % (again,), prop="C18", data=d2)
            entered[:] = ran
            rset = selected(rsel)
            c.check(not (set(ran) & file_ids), "restart executed %s although their results are in the cache file" % sorted(set(ran) & file_ids), prop="C18",
                    data={**d2, "ran": ran})
            want_run = sorted(l for l in rset if l not in file_ids and not (setup_done_on_target and l == labels[0]))
            c.check(sorted(ran) == want_run, "restart executed %s, expected %s" % (sorted(ran), want_run), prop="C18", data={**d2, "ran": ran})
            # values: cached nodes keep the cached value, the others are computed from them and from the restart's argument
            val: Dict[str, Any] = {}
            for l in labels:
                if l in file_ids:
                    val[l] = content[l]
                elif l in rset or (setup_done_on_target and l == labels[0]):
                    args = ([X2] if takes_input[l] else ([7] if not deps[l] else [])) + [val[dep] for dep in deps[l]]
                    val[l] = value_of(l, args)
                else:
                    val[l] = None
            c.check(veq(out2, tuple(val[l] for l in labels)), "restart returned values that are not the cached results / not computed from them", prop="C18",
                    data={**d2, "got": out2, "want": tuple(val[l] for l in labels), "first_run": out1})
            if kind == "whole" and restart_same_sel:
                c.check(veq(out2, out1), "restart from a whole-DAG cache returned a different value", prop="C18", data={**d2, "got": out2, "first": out1})
            if kind == "deps_of" and restart_same_sel:
                only = sorted(m for m in members(sel) if not (setup_done_on_target and m == labels[0]))
                c.check(sorted(ran) == only, "restart from cache_deps_of=%s executed %s instead of %s only" % (members(sel), sorted(ran), only), prop="C18", data=d2)
                c.cover("w_deps_of_restart")
                if len(members(sel)) > 1:
                    c.cover("w_deps_of_two")
            if setup0 and not restart_on_copy and labels[0] in rset:
                setup_done_on_d = True
            if rnd == 1:
                c.cover("w_second_round")
        if setup0 and cfg.length >= 3:
            # a cache written by ANOTHER instance holds another value for the setup node: an execution restarted from it
            # may use the cached value, but this instance keeps the value its own setup node produced the first time
            stamp[0] = True
            mine = copy.deepcopy(pristine)
            other = copy.deepcopy(pristine)
            first = _run(mine, c.val("x_mine"))  # the setup node runs here for the first time on `mine`
            _run(other.executor(cache_in=path), c.val("x_other"))  # ... and a second time in the world, on `other`
            _run(mine.executor(from_cache=path), c.val("x_restart_foreign"))
            later = _run(mine, c.val("x_later"))
            c.check(veq(later[0], first[0]), "after an execution restarted from another instance's cache the DAG no longer sees the value its setup node produced the first time",
                    prop="C18", data={**data, "first": first[0], "later": later[0]})
            c.cover("w_foreign_cache")
    finally:
        import shutil

        shutil.rmtree(tmp, ignore_errors=True)
    if cfg.twin:
        c.check(False, "reachability twin: the end of the harness is reachable", prop="TWIN")
    c.cover("states", hash(repr(data)))
    return data
