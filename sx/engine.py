"""SX: a small z3-backed path-exploring symbolic executor for running real Python code.

The code under test runs unmodified inside CPython.  Symbolic integers (SInt), booleans (SBool)
and opaque values (SymVal, terms of an uninterpreted sort) are proxy objects that build z3 terms;
whenever the code branches on one of them (``__bool__``) the current :class:`Ctx` forks: both
sides are checked for feasibility with the solver, one is followed now and the other one later.
Exploration is stateless depth-first search: the harness is re-executed once per path, replaying the
recorded decision prefix.  ``Ctx.check(e)`` asks the solver for ``path_condition AND NOT e``:
``unsat`` means *e holds for every value of the remaining symbols on this path*, ``sat`` yields a
model, i.e. a candidate counterexample, ``unknown`` makes the whole run inconclusive.
"""
from __future__ import annotations

import itertools
import multiprocessing
import os
import time
import traceback
from typing import Any, Callable, Dict, List, Optional, Tuple

import z3

# ----------------------------------------------------------------------------------------------
# control exceptions: BaseException so that `except Exception` in the code under test never eats them
# ----------------------------------------------------------------------------------------------


class SXControl(BaseException):
    pass


class PathAbort(SXControl):
    """The path is infeasible under an assumption (vacuous path)."""


class SplitPoint(SXControl):
    """Frontier enumeration reached the split depth."""


class Inconclusive(SXControl):
    """Solver answered unknown / budget exhausted / harness cannot decide."""


class Violation(SXControl):
    def __init__(self, record: Dict[str, Any]):
        super().__init__(record.get("msg", "violation"))
        self.record = record


_CTX: Optional["Ctx"] = None


def ctx() -> "Ctx":
    assert _CTX is not None, "no active SX context"
    return _CTX


class Dec:
    __slots__ = ("cur", "alts", "kind", "label", "sig")

    def __init__(self, cur: int, alts: List[int], kind: str, label: str, sig: Any = None):
        self.cur = cur
        self.alts = alts
        self.kind = kind
        self.label = label
        self.sig = sig  # what was decided (condition text / number of alternatives): re-executions must meet the same decision


class Stats:
    FIELDS = (
        "paths",
        "aborted",
        "solver_calls",
        "solver_s",
        "checks",
        "checks_trivial",
        "unknown",
        "forks",
        "known_hits",
    )

    def __init__(self) -> None:
        for f in self.FIELDS:
            setattr(self, f, 0)
        self.solver_s = 0.0

    def as_dict(self) -> Dict[str, Any]:
        return {f: getattr(self, f) for f in self.FIELDS}

    def add(self, other: Dict[str, Any]) -> None:
        for f in self.FIELDS:
            setattr(self, f, getattr(self, f) + other.get(f, 0))


class Ctx:
    """One exploration context (one per process)."""

    def __init__(self, timeout_ms: int = 20000) -> None:
        self.solver = z3.Solver()
        self.solver.set("timeout", timeout_ms)
        self.prefix: List[Dec] = []
        self.pos = 0
        self.floor = 0  # decisions below this index are fixed (work item prefix)
        self.split_depth: Optional[int] = None
        self.stats = Stats()
        self.fresh = itertools.count()
        self.choices: Dict[str, List[int]] = {}
        self.symbols: Dict[str, Any] = {}
        self.consts: Dict[Any, Any] = {}
        self.lifted: Dict[Any, Any] = {}
        self.notes: Dict[str, Any] = {}  # per-path scratch space for harnesses
        self.coverage: Dict[str, Any] = {}  # accumulated over paths (sets / counters)
        self.known: List[Dict[str, Any]] = []
        self.deadline: Optional[float] = None
        self.concrete = False
        self.cvals: Dict[str, Any] = {}
        self.queues: Dict[str, List[int]] = {}

    # ---------------------------------------------------------------- solver plumbing
    def _check(self, *assumptions: Any) -> Any:
        t0 = time.perf_counter()
        r = self.solver.check(*assumptions)
        self.stats.solver_s += time.perf_counter() - t0
        self.stats.solver_calls += 1
        if r == z3.unknown:
            self.stats.unknown += 1
            raise Inconclusive("solver answered unknown: %s" % self.solver.reason_unknown())
        return r

    def begin_path(self) -> None:
        self.solver.push()
        self.pos = 0
        self.fresh = itertools.count()
        self.choices = {}
        self.symbols = {}
        self.consts = {}
        self.lifted = {}
        self.notes = {}
        if self.deadline is not None and time.time() > self.deadline:
            raise Inconclusive("time budget exhausted")

    def end_path(self) -> None:
        self.solver.pop()

    # ---------------------------------------------------------------- symbols
    def int(self, name: str) -> Any:
        if self.concrete:
            return CInt(self.cvals[name])
        v = z3.Int(name)
        self.symbols[name] = v
        return SInt(v)

    def bool(self, name: str) -> Any:
        if self.concrete:
            return CBool(self.cvals[name])
        v = z3.Bool(name)
        self.symbols[name] = v
        return SBool(v)

    def val(self, name: str) -> "SymVal":
        v = z3.Const(name, V)
        self.symbols[name] = v
        return SymVal(v)

    # ---------------------------------------------------------------- decisions
    def fork(self, cond: Any, label: str = "") -> bool:
        """Branch on a z3 Bool."""
        cond = z3.simplify(cond)
        if z3.is_true(cond):
            return True
        if z3.is_false(cond):
            return False
        if self.concrete:
            return self._concrete_fork(cond, label)
        if self.pos < len(self.prefix):
            d = self.prefix[self.pos]
            self.pos += 1
            if d.sig is not None and d.sig != cond.sexpr():
                raise Inconclusive("the harness is not deterministic: decision %d was on %s, now on %s" % (self.pos - 1, d.sig, cond.sexpr()))
            if d.kind == "fixed" and d.sig is None:
                d.sig = cond.sexpr()
            take = d.cur == 0
            self.solver.add(cond if take else z3.Not(cond))
            if label:
                self.choices.setdefault("fork:" + label, []).append(d.cur)
            return take
        if self.split_depth is not None and len(self.prefix) >= self.split_depth:
            raise SplitPoint()
        self.stats.forks += 1
        t = self._check(cond)
        if t == z3.sat:
            f = self._check(z3.Not(cond))
            if f == z3.sat:
                d = Dec(0, [1], "fork", label, cond.sexpr())
            else:
                d = Dec(0, [], "fork", label, cond.sexpr())
        else:
            d = Dec(1, [], "fork", label, cond.sexpr())
        self.prefix.append(d)
        self.pos += 1
        take = d.cur == 0
        self.solver.add(cond if take else z3.Not(cond))
        if label:
            self.choices.setdefault("fork:" + label, []).append(d.cur)
        return take

    def _concrete_fork(self, cond: Any, label: str) -> bool:
        """Replay mode: labelled decisions come from the counterexample record, anything else must be forced."""
        q = self.queues.get("fork:" + label) if label else None
        if q:
            take = q.pop(0) == 0
        else:
            t = self._check(cond)
            f = self._check(z3.Not(cond)) if t == z3.sat else z3.unsat
            if t == z3.sat and f == z3.sat:
                raise Inconclusive("replay diverged: unforced fork on %s" % cond)
            take = t == z3.sat
        self.solver.add(cond if take else z3.Not(cond))
        return take

    def choose(self, n: int, label: str = "c") -> int:
        """A fresh solver variable in [0, n), concretised by forking."""
        assert n >= 1
        name = "%s#%d" % (label, next(self.fresh))
        var = z3.Int(name)
        if self.concrete:
            q = self.queues.get(label)
            if not q:
                if n == 1:
                    return 0
                raise Inconclusive("replay diverged: no recorded choice for %s" % label)
            v = q.pop(0)
            if not 0 <= v < n:
                raise Inconclusive("replay diverged: recorded choice %s=%d out of range %d" % (label, v, n))
            self.choices.setdefault(label, []).append(v)
            return v
        if self.pos < len(self.prefix):
            d = self.prefix[self.pos]
            self.pos += 1
            sig = "choose:%s:%d" % (label, n)
            if d.sig is not None and d.sig != sig:
                raise Inconclusive("the harness is not deterministic: decision %d was %s, now %s" % (self.pos - 1, d.sig, sig))
            if d.kind == "fixed" and d.sig is None:
                d.sig = sig
        else:
            if n > 1 and self.split_depth is not None and len(self.prefix) >= self.split_depth:
                raise SplitPoint()
            d = Dec(0, list(range(1, n)), "choose", label, "choose:%s:%d" % (label, n))
            self.prefix.append(d)
            self.pos += 1
        self.solver.add(var == d.cur)
        self.choices.setdefault(label, []).append(d.cur)
        return d.cur

    def heavy(self) -> None:
        """Marker placed by a harness after its cheap structural choices and before the expensive part (building and
        running DAGs): during frontier enumeration the path stops here and becomes a work item for the pool."""
        if self.split_depth is not None and len(self.prefix) > self.floor and len(self.prefix) >= min(8, self.split_depth):
            raise SplitPoint()  # (with fewer decisions so far the frontier would be too coarse to balance 16 workers)

    def assume(self, cond: Any) -> None:
        if isinstance(cond, SBool):
            cond = cond.z
        if isinstance(cond, bool):
            if not cond:
                raise PathAbort()
            return
        if self._check(cond) != z3.sat:
            raise PathAbort()
        self.solver.add(cond)

    def model(self) -> Dict[str, Any]:
        """Concrete values for all named symbols under the current path condition."""
        self._check()
        m = self.solver.model()
        out: Dict[str, Any] = {}
        for name, v in self.symbols.items():
            mv = m.eval(v, model_completion=True)
            if z3.is_int_value(mv):
                out[name] = mv.as_long()
            elif z3.is_bool(mv):
                out[name] = z3.is_true(mv)
            else:
                out[name] = str(mv)
        return out

    def check(self, e: Any, msg: str, prop: str = "", data: Optional[Dict[str, Any]] = None,
              known: Optional[Callable[[Dict[str, Any]], Optional[str]]] = None) -> bool:
        """Assert that e holds for every value of the symbols on this path.

        Returns True when discharged.  Raises Violation with a model otherwise, unless the
        ``known`` matcher recognises the counterexample as a listed known finding, in which case the
        finding is recorded, the path continues and False is returned."""
        self.stats.checks += 1
        if isinstance(e, SBool):
            e = e.z
        if isinstance(e, bool):
            self.stats.checks_trivial += 1
            if e:
                return True
            sat = True
        else:
            e = z3.simplify(e)
            if z3.is_true(e):
                self.stats.checks_trivial += 1
                return True
            sat = self._check(z3.Not(e)) == z3.sat
            if not sat:
                return True
            self.solver.push()
            self.solver.add(z3.Not(e))
        try:
            rec = {
                "property": prop,
                "msg": msg,
                "data": _jsonable(data or {}),
                "model": self.model(),
                "choices": {k: list(v) for k, v in self.choices.items()},
                "decisions": [d.cur for d in self.prefix[: self.pos]],
                "notes": _jsonable(self.notes.get("trace", [])),
            }
        finally:
            if not isinstance(e, bool):
                self.solver.pop()
        if known is not None:
            k = known(rec)
            if k:
                rec["known"] = k
                self.stats.known_hits += 1
                if len(self.known) < 5:
                    self.known.append(rec)
                self.coverage.setdefault("known_ids", set()).add(k)
                return False
        raise Violation(rec)

    def cover(self, key: str, item: Any = None) -> None:
        """Coverage bookkeeping: counters (item None) or sets of hashable items."""
        if item is None:
            self.coverage[key] = self.coverage.get(key, 0) + 1
        else:
            self.coverage.setdefault(key, set()).add(item)

    # ---------------------------------------------------------------- DFS
    def backtrack(self) -> bool:
        while len(self.prefix) > self.floor and not self.prefix[-1].alts:
            self.prefix.pop()
        if len(self.prefix) <= self.floor:
            return False
        d = self.prefix[-1]
        d.cur = d.alts.pop(0)
        return True


def _jsonable(x: Any) -> Any:
    if isinstance(x, (str, int, float, bool)) or x is None:
        if isinstance(x, SInt):
            return repr(x)
        return x
    if isinstance(x, dict):
        return {str(k): _jsonable(v) for k, v in x.items()}
    if isinstance(x, (list, tuple, set, frozenset)):
        return [_jsonable(v) for v in x]
    return repr(x)


# ----------------------------------------------------------------------------------------------
# symbolic values
# ----------------------------------------------------------------------------------------------


def _zint(o: Any) -> Any:
    if isinstance(o, (SInt, CInt)):
        return o.z
    if isinstance(o, bool):
        return z3.IntVal(int(o))
    if isinstance(o, int):
        return z3.IntVal(int.__int__(o))
    return None


class SBool:
    """Symbolic boolean; branching on it forks the path."""

    __slots__ = ("z",)

    def __init__(self, z: Any):
        self.z = z

    def __bool__(self) -> bool:
        return ctx().fork(self.z)

    def __invert__(self) -> "SBool":
        return SBool(z3.Not(self.z))

    def __and__(self, o: Any) -> "SBool":
        return SBool(z3.And(self.z, _zbool(o)))

    __rand__ = __and__

    def __or__(self, o: Any) -> "SBool":
        return SBool(z3.Or(self.z, _zbool(o)))

    __ror__ = __or__

    def __eq__(self, o: Any) -> Any:  # type: ignore[override]
        zb = _zbool(o)
        if zb is None:
            return NotImplemented
        return SBool(self.z == zb)

    def __ne__(self, o: Any) -> Any:  # type: ignore[override]
        zb = _zbool(o)
        if zb is None:
            return NotImplemented
        return SBool(self.z != zb)

    def __hash__(self) -> int:
        raise TypeError("symbolic bool is unhashable (would concretise silently)")

    def __deepcopy__(self, memo: Any) -> "SBool":
        return self

    def __copy__(self) -> "SBool":
        return self

    def __repr__(self) -> str:
        return "SBool(%s)" % self.z


def _zbool(o: Any) -> Any:
    if isinstance(o, (SBool, CBool)):
        return o.z
    if isinstance(o, bool):
        return z3.BoolVal(o)
    return None


class SInt(int):
    """Symbolic integer.  Subclasses int so that isinstance(x, int) validations accept it."""

    def __new__(cls, z: Any) -> "SInt":
        obj = int.__new__(cls, 0)
        obj.z = z
        return obj

    def _bin(self, o: Any, f: Callable[[Any, Any], Any], swap: bool = False) -> Any:
        zo = _zint(o)
        if zo is None:
            return NotImplemented
        return SInt(f(zo, self.z) if swap else f(self.z, zo))

    def __add__(self, o: Any) -> Any:
        return self._bin(o, lambda a, b: a + b)

    def __radd__(self, o: Any) -> Any:
        return self._bin(o, lambda a, b: a + b, True)

    def __sub__(self, o: Any) -> Any:
        return self._bin(o, lambda a, b: a - b)

    def __rsub__(self, o: Any) -> Any:
        return self._bin(o, lambda a, b: a - b, True)

    def __mul__(self, o: Any) -> Any:
        return self._bin(o, lambda a, b: a * b)

    def __rmul__(self, o: Any) -> Any:
        return self._bin(o, lambda a, b: a * b, True)

    def __neg__(self) -> "SInt":
        return SInt(-self.z)

    def __pos__(self) -> "SInt":
        return self

    def _cmp(self, o: Any, f: Callable[[Any, Any], Any]) -> Any:
        zo = _zint(o)
        if zo is None:
            return NotImplemented
        return SBool(f(self.z, zo))

    def __lt__(self, o: Any) -> Any:
        return self._cmp(o, lambda a, b: a < b)

    def __le__(self, o: Any) -> Any:
        return self._cmp(o, lambda a, b: a <= b)

    def __gt__(self, o: Any) -> Any:
        return self._cmp(o, lambda a, b: a > b)

    def __ge__(self, o: Any) -> Any:
        return self._cmp(o, lambda a, b: a >= b)

    def __eq__(self, o: Any) -> Any:  # type: ignore[override]
        return self._cmp(o, lambda a, b: a == b)

    def __ne__(self, o: Any) -> Any:  # type: ignore[override]
        return self._cmp(o, lambda a, b: a != b)

    def __bool__(self) -> bool:
        return ctx().fork(self.z != 0)

    def __hash__(self) -> int:
        raise TypeError("symbolic int is unhashable (would concretise silently)")

    def __index__(self) -> int:
        raise TypeError("symbolic int used as an index (would concretise silently)")

    def __int__(self) -> int:
        raise TypeError("int() of a symbolic int (would concretise silently)")

    def __deepcopy__(self, memo: Any) -> "SInt":
        return self

    def __copy__(self) -> "SInt":
        return self

    def __repr__(self) -> str:
        return "SInt(%s)" % self.z

    __str__ = __repr__

    def __format__(self, spec: str) -> str:
        return repr(self)


class CInt(int):
    """Replay mode: an ordinary int (all arithmetic / comparisons are CPython's own); ``.z`` is only
    read by harness-side monitors."""

    def __new__(cls, v: int) -> "CInt":
        obj = int.__new__(cls, v)
        obj.z = z3.IntVal(v)
        return obj

    def __deepcopy__(self, memo: Any) -> "CInt":
        return self


class CBool:
    """Replay mode stand-in for a symbolic flag: truthiness is the concrete value."""

    __slots__ = ("v", "z")

    def __init__(self, v: bool):
        self.v = bool(v)
        self.z = z3.BoolVal(self.v)

    def __bool__(self) -> bool:
        return self.v

    def __deepcopy__(self, memo: Any) -> "CBool":
        return self

    def __repr__(self) -> str:
        return repr(self.v)


# ---- opaque values -----------------------------------------------------------------------------
V = z3.DeclareSort("V")
truthy = z3.Function("truthy", V, z3.BoolSort())
getitem_f = z3.Function("getitem", V, V, V)
intv = z3.Function("intv", z3.IntSort(), V)
boolv = z3.Function("boolv", z3.BoolSort(), V)
NONE = z3.Const("None", V)
_FUNCS: Dict[Tuple[str, int], Any] = {}


def vfun(name: str, arity: int) -> Any:
    key = (name, arity)
    f = _FUNCS.get(key)
    if f is None:
        f = z3.Function("%s/%d" % (name, arity), *([V] * arity), V) if arity else z3.Const(name + "/0", V)
        _FUNCS[key] = f
    return f


def vapp(name: str, args: List[Any]) -> Any:
    f = vfun(name, len(args))
    return f(*args) if args else f


def _const(kind: str, key: Any) -> Any:
    """An opaque constant of sort V, distinct from every other lifted constant on this path."""
    c = ctx()
    k = (kind, key)
    t = c.consts.get(k)
    if t is None:
        t = z3.Const("%s:%r" % (kind, key), V)
        for other in c.consts.values():
            c.solver.add(t != other)
        for other_t, _ in c.lifted.values():
            c.solver.add(t != other_t)
        c.solver.add(t != NONE)
        if kind == "str":
            c.solver.add(truthy(t) == bool(key))
        c.consts[k] = t
    return t


def _lift_int(z: Any) -> Any:
    """intv(z) with the quantifier-free instances of the axioms of the injection Int -> V."""
    c = ctx()
    t = intv(z)
    key = ("int", z.get_id())
    if key not in c.lifted:
        c.solver.add(truthy(t) == (z != 0))
        c.solver.add(t != NONE)
        for (kind, _), (other_t, other_z) in list(c.lifted.items()):
            if kind == "int":
                c.solver.add((t == other_t) == (z == other_z))
            else:
                c.solver.add(t != other_t)
        for other in c.consts.values():
            c.solver.add(t != other)
        c.lifted[key] = (t, z)
    return t


def _lift_bool(z: Any) -> Any:
    c = ctx()
    t = boolv(z)
    key = ("bool", z.get_id())
    if key not in c.lifted:
        c.solver.add(truthy(t) == z)
        c.solver.add(t != NONE)
        for (kind, _), (other_t, other_z) in list(c.lifted.items()):
            if kind == "bool":
                c.solver.add((t == other_t) == (z == other_z))
            else:
                c.solver.add(t != other_t)
        for other in c.consts.values():
            c.solver.add(t != other)
        c.lifted[key] = (t, z)
    return t


def lift(x: Any) -> Any:
    """Python value -> term of sort V."""
    if isinstance(x, SymVal):
        return x.t
    if x is None:
        return NONE
    if isinstance(x, (SBool, CBool)):
        return _lift_bool(x.z)
    if isinstance(x, bool):
        return _lift_bool(z3.BoolVal(x))
    if isinstance(x, SInt):
        return _lift_int(x.z)
    if isinstance(x, int):
        return _lift_int(z3.IntVal(x))
    if isinstance(x, str):
        t = _const("str", x)
        return t
    if isinstance(x, (tuple, list)):
        return vapp("tuple" if isinstance(x, tuple) else "list", [lift(e) for e in x])
    if isinstance(x, dict):
        items = []
        for k, v in x.items():
            items.append(lift(k))
            items.append(lift(v))
        return vapp("dict", items)
    return _const("obj", id(x))


def base_axioms(solver: Any) -> None:
    solver.add(z3.Not(truthy(NONE)))


class SymVal:
    """A value of the uninterpreted sort V (result of a node function, a DAG input, ...)."""

    __slots__ = ("t",)

    def __init__(self, t: Any):
        self.t = t

    def __bool__(self) -> bool:
        return ctx().fork(truthy(self.t), "truthy")

    def __getitem__(self, k: Any) -> "SymVal":
        return SymVal(getitem_f(self.t, lift(k)))

    def __iter__(self) -> Any:
        raise TypeError("opaque symbolic value is not iterable")

    def __deepcopy__(self, memo: Any) -> "SymVal":
        return self

    def __copy__(self) -> "SymVal":
        return self

    def __hash__(self) -> int:
        raise TypeError("symbolic value is unhashable")

    def __repr__(self) -> str:
        return "SymVal(%s)" % self.t

    def __reduce__(self) -> Any:
        return (_unpickle_symval, (_token_of(self),))

    def _op(name: str, swap: bool = False) -> Any:  # type: ignore[misc]
        def m(self: "SymVal", o: Any) -> "SymVal":
            a, b = lift(self), lift(o)
            if swap:
                a, b = b, a
            return SymVal(vapp("op_" + name, [a, b]))

        return m

    def _uop(name: str) -> Any:  # type: ignore[misc]
        def m(self: "SymVal") -> "SymVal":
            return SymVal(vapp("op_" + name, [lift(self)]))

        return m

    __add__ = _op("add")
    __radd__ = _op("add", True)
    __sub__ = _op("sub")
    __rsub__ = _op("sub", True)
    __mul__ = _op("mul")
    __rmul__ = _op("mul", True)
    __truediv__ = _op("truediv")
    __rtruediv__ = _op("truediv", True)
    __floordiv__ = _op("floordiv")
    __rfloordiv__ = _op("floordiv", True)
    __mod__ = _op("mod")
    __rmod__ = _op("mod", True)
    __and__ = _op("and")
    __rand__ = _op("and", True)
    __or__ = _op("or")
    __ror__ = _op("or", True)
    __xor__ = _op("xor")
    __rxor__ = _op("xor", True)
    __lt__ = _op("lt")
    __le__ = _op("le")
    __gt__ = _op("gt")
    __ge__ = _op("ge")
    __eq__ = _op("eq")  # type: ignore[assignment]
    __ne__ = _op("ne")  # type: ignore[assignment]
    __neg__ = _uop("neg")
    __pos__ = _uop("pos")
    __abs__ = _uop("abs")
    __invert__ = _uop("invert")


_TOKENS: Dict[int, SymVal] = {}


def _token_of(v: SymVal) -> int:
    k = len(_TOKENS)
    _TOKENS[k] = v
    return k


def _unpickle_symval(k: int) -> SymVal:
    return _TOKENS[k]


def veq(a: Any, b: Any) -> Any:
    """z3 formula: two Python values (possibly nested containers of symbolic values) are equal."""
    if isinstance(a, (tuple, list)) or isinstance(b, (tuple, list)):
        if type(a) is not type(b) or len(a) != len(b):
            return z3.BoolVal(False)
        return z3.And([veq(x, y) for x, y in zip(a, b)] + [z3.BoolVal(True)])
    if isinstance(a, dict) or isinstance(b, dict):
        if not (isinstance(a, dict) and isinstance(b, dict)) or list(a.keys()) != list(b.keys()):
            return z3.BoolVal(False)
        return z3.And([veq(a[k], b[k]) for k in a] + [z3.BoolVal(True)])
    return lift(a) == lift(b)


# ----------------------------------------------------------------------------------------------
# exploration driver
# ----------------------------------------------------------------------------------------------


class Result:
    def __init__(self) -> None:
        self.stats = Stats()
        self.violation: Optional[Dict[str, Any]] = None
        self.inconclusive: Optional[str] = None
        self.coverage: Dict[str, Any] = {}
        self.known: List[Dict[str, Any]] = []
        self.samples: List[Any] = []
        self.items = 0
        self.wall_s = 0.0
        self.errors: List[str] = []

    def merge_cov(self, cov: Dict[str, Any]) -> None:
        for k, v in cov.items():
            if isinstance(v, set):
                self.coverage.setdefault(k, set()).update(v)
            elif isinstance(v, (int, float)):
                self.coverage[k] = self.coverage.get(k, 0) + v
            elif isinstance(v, list):
                cur = self.coverage.setdefault(k, [])
                if len(cur) < 8:
                    cur.extend(v[: 8 - len(cur)])


def _run_paths(c: Ctx, harness: Callable[[Ctx], Any], res: Dict[str, Any], stop_on_violation: bool = True) -> None:
    """Explore every path below c.prefix[:c.floor]."""
    global _CTX
    _CTX = c
    while True:
        try:
            c.begin_path()
        except Inconclusive as e:
            res["inconclusive"] = str(e)
            return
        try:
            try:
                sample = harness(c)
                c.stats.paths += 1
                if sample is not None and len(res["samples"]) < 3:
                    if isinstance(sample, dict) and "choices" in sample:
                        sample["model"] = c.model()  # makes the sampled path replayable
                    res["samples"].append(_jsonable(sample))
            except PathAbort:
                c.stats.aborted += 1
            except SplitPoint:
                res["items"].append([d.cur for d in c.prefix])
            except Violation as v:
                c.stats.paths += 1
                res["violation"] = v.record
                if stop_on_violation:
                    return
            except Inconclusive as e:
                res["inconclusive"] = str(e)
                return
            except RecursionError:
                res["errors"].append("RecursionError on path %s" % [d.cur for d in c.prefix[:40]])
                res["inconclusive"] = "harness error"
                return
            except BaseException as e:  # harness bug: never a verdict
                if isinstance(e, (KeyboardInterrupt, SystemExit)):
                    raise
                res["errors"].append(
                    "harness error on path %s: %s" % ([d.cur for d in c.prefix[:60]], traceback.format_exc()[-3000:])
                )
                res["inconclusive"] = "harness error"
                return
        finally:
            c.end_path()
        if not c.backtrack():
            return


def _worker(args: Tuple[Any, ...]) -> Dict[str, Any]:
    harness, item, deadline, timeout_ms = args
    c = Ctx(timeout_ms)
    base_axioms(c.solver)
    c.prefix = [Dec(v, [], "fixed", "") for v in item]
    c.floor = len(item)
    c.deadline = deadline
    res: Dict[str, Any] = {"samples": [], "items": [], "errors": []}
    _run_paths(c, harness, res)
    res["stats"] = c.stats.as_dict()
    res["coverage"] = c.coverage
    res["known"] = c.known
    return res


def explore(harness: Callable[[Ctx], Any], workers: int = 0, split_depth: int = 6, budget_s: float = 600.0,
            timeout_ms: int = 20000) -> Result:
    """Explore all paths of harness (a module level function taking the Ctx)."""
    t0 = time.time()
    out = Result()
    deadline = t0 + budget_s
    # (VERIF_WORKERS: development only - fewer processes for runs that share the machine with another run)
    workers = workers or int(os.environ.get("VERIF_WORKERS") or 0) or min(16, os.cpu_count() or 1)
    # phase 1: frontier = decision prefixes up to split_depth or up to the harness's heavy() marker
    c = Ctx(timeout_ms)
    base_axioms(c.solver)
    c.split_depth = split_depth if workers > 1 else None
    c.deadline = deadline
    res: Dict[str, Any] = {"samples": [], "items": [], "errors": []}
    _run_paths(c, harness, res)
    out.stats.add(c.stats.as_dict())
    out.merge_cov(c.coverage)
    out.known.extend(c.known)
    out.samples.extend(res["samples"])
    out.errors.extend(res["errors"])
    out.violation = res.get("violation")
    out.inconclusive = res.get("inconclusive")
    items = res["items"]
    out.items = len(items)
    if items and out.violation is None and out.inconclusive is None:
        mp = multiprocessing.get_context("fork")
        pool = mp.Pool(workers)
        try:
            jobs = [(harness, it, deadline, timeout_ms) for it in items]
            it = pool.imap_unordered(_worker, jobs, chunksize=1)  # (chunksize 1: the iterator supports next(timeout))
            while True:
                try:
                    r = it.next(timeout=max(60.0, deadline - time.time() + 120.0))
                except StopIteration:
                    break
                except multiprocessing.TimeoutError:
                    out.inconclusive = "results of the worker processes did not arrive in time (a worker died or hangs)"
                    break
                out.stats.add(r["stats"])
                out.merge_cov(r["coverage"])
                out.errors.extend(r["errors"])
                for k in r["known"]:
                    if len(out.known) < 5:
                        out.known.append(k)
                for s in r["samples"]:
                    if len(out.samples) < 6:
                        out.samples.append(s)
                if r.get("inconclusive") and not out.inconclusive:
                    out.inconclusive = r["inconclusive"]
                if r.get("violation") and out.violation is None:
                    out.violation = r["violation"]
                    break
        finally:
            _shutdown_pool(pool)
    out.wall_s = time.time() - t0
    return out


def _shutdown_pool(pool: Any) -> None:
    """Pool.terminate() can block forever when a worker is in the middle of sending a result; do it with a
    time limit and kill the workers outright if it does not come back."""
    import signal
    import threading

    procs = list(getattr(pool, "_pool", []))
    t = threading.Thread(target=pool.terminate, daemon=True)
    t.start()
    t.join(15)
    if t.is_alive():
        for p in procs:
            try:
                os.kill(p.pid, signal.SIGKILL)
            except OSError:
                pass
        t.join(5)


def replay(harness: Callable[[Ctx], Any], record: Dict[str, Any], timeout_ms: int = 20000) -> Dict[str, Any]:
    """Re-run one path concretely: named ints/bools are ordinary Python values taken from the model,
    enumerated choices and value-truthiness decisions come from the record; every other branch of the
    code under test is decided by CPython itself.  Returns {'reproduced': bool, 'violation': rec|None}."""
    global _CTX
    c = Ctx(timeout_ms)
    base_axioms(c.solver)
    c.concrete = True
    c.cvals = dict(record.get("model", {}))
    c.queues = {k: list(v) for k, v in record.get("choices", {}).items()}
    _CTX = c
    c.begin_path()
    out: Dict[str, Any] = {"reproduced": False, "violation": None, "error": None}
    try:
        harness(c)
    except Violation as v:
        out["violation"] = v.record
        out["reproduced"] = v.record.get("property") == record.get("property")
    except Inconclusive as e:
        out["error"] = "inconclusive: %s" % e
    except SXControl as e:
        out["error"] = "control: %r" % (e,)
    except BaseException as e:
        if isinstance(e, (KeyboardInterrupt, SystemExit)):
            raise
        out["error"] = traceback.format_exc()[-2000:]
    finally:
        c.end_path()
    return out
