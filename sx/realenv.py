"""Replay of a solver-chosen schedule on the REAL ThreadPoolExecutor and a REAL asyncio event loop.

Node bodies run on real worker threads and block on per-node events; the schedule extracted from the
symbolic path (which nodes finish at which wait) is applied by thin wrappers around the real
``concurrent.futures.wait`` / ``asyncio.wait`` (the only wrapped primitives besides bookkeeping in
``submit`` / ``ensure_future``): before the real wait is called, the nodes chosen by the model are
released and joined, so the real primitive observes exactly the completions of the model.  The same
monitors run on the real entry / observation events (thread identity decides inline vs. pooled).
Used (a) to validate the environment model on every run (event traces of sampled paths must be
identical on the model and on the real pool) and (b) to confirm counterexamples.
"""
from __future__ import annotations

import asyncio as real_asyncio
import concurrent.futures as cf
import contextvars
import functools
import threading
import time
from typing import Any, Dict, List, Optional, Set, Tuple

from .engine import Ctx, SXControl
from .env import ALL_COMPLETED, DEFAULT_EXECUTOR_WORKERS, HarnessError

REAL_WAIT = cf.wait
REAL_POOL = cf.ThreadPoolExecutor


class ReplayDiverged(SXControl):
    pass


class Pseudo:
    """What the monitors need to know about a real future."""

    def __init__(self, label: Optional[str], kind: str, fut: Any, uid: int):
        self.label, self.kind, self.fut, self.uid = label, kind, fut, uid

    @property
    def exc(self) -> Optional[BaseException]:
        f = self.fut
        try:
            if not f.done():
                return None
            if f.cancelled():
                return real_asyncio.CancelledError()
            return f.exception()
        except BaseException as e:  # noqa: BLE001
            return e

    def __hash__(self) -> int:
        return self.uid

    def __eq__(self, o: Any) -> bool:
        return self is o


class RealWorld:
    def __init__(self, c: Ctx, monitor: Any, schedule: List[Tuple[str, List[str]]]):
        self.c = c
        self.monitor = monitor
        self.schedule = list(schedule)
        self.trace: List[Any] = []
        c.notes["trace"] = self.trace
        self.events = 0
        self.lines = 0
        self.line_budget = 400000
        self.lock = threading.RLock()
        self.release: Dict[str, threading.Event] = {}
        self.entered: Dict[str, threading.Event] = {}
        self.meta: Dict[int, Pseudo] = {}
        self.keep: List[Any] = []
        self.tl = threading.local()
        self.main_ident = threading.get_ident()
        self.pending_tasks: List[Any] = []
        self.pools: List[Any] = []
        self.uid = 0
        self.submitted_kind: Dict[str, str] = {}
        self.errors: List[str] = []
        self.exited: Set[str] = set()
        self.real_futures: List[Any] = []

    # ---- monitor-facing surface (same names as sx.env.World)
    @property
    def cur_future(self) -> Optional[Pseudo]:
        return getattr(self.tl, "pseudo", None)

    def event(self, what: str, *info: Any) -> None:
        with self.lock:
            self.events += 1
            self.trace.append((what,) + info)

    def ev(self, d: Dict[str, threading.Event], label: str) -> threading.Event:
        with self.lock:
            if label not in d:
                d[label] = threading.Event()
            return d[label]

    def pseudo(self, fut: Any) -> Pseudo:
        p = self.meta.get(id(fut))
        if p is None:
            self.uid += 1
            p = Pseudo(None, "thread" if isinstance(fut, cf.Future) else "async", fut, self.uid)
            self.meta[id(fut)] = p
            self.keep.append(fut)
        return p

    # ---- node bodies
    def node_body(self, label: str, args: Tuple[Any, ...], kwargs: Dict[str, Any]) -> Any:
        inline = threading.get_ident() == self.main_ident
        exc: Optional[BaseException] = None
        val = None
        with self.lock:
            kind = "inline" if inline else self.submitted_kind.get(label, "thread")
            self.tl.pseudo = None if inline else Pseudo(label, kind, None, -1)
            try:
                val = self.monitor.m.node_entered(label, args, kwargs)
            except SXControl as e:
                self.errors.append("control:%r" % (e,))
                self.control = e
                exc = e
            except BaseException as e:
                exc = e
        self.ev(self.entered, label).set()
        if not inline:
            if not self.ev(self.release, label).wait(30):
                self.errors.append("node %s was never released" % label)
        with self.lock:
            self.exited.add(label)
        if exc is not None:
            raise exc
        return val

    def observe(self, fut: Any) -> None:
        """The scheduler was handed `fut` as done by a real wait primitive."""
        p = self.pseudo(fut)
        with self.lock:
            if p.label is not None and p.label not in self.exited:
                # a future reported done although the node function is still running (e.g. a task that does not
                # await its executor future): the node has not been observed finished
                self.event("done-but-node-running", p.label)
                return
            self.monitor.observed(p)

    control: Optional[BaseException] = None

    # ---- schedule
    def next_finish(self, via: str, pending_labels: List[str]) -> List[str]:
        if self.control is not None:
            raise self.control  # a monitor running on a worker thread already found the violation
        if not self.schedule:
            raise ReplayDiverged("real scheduler blocks on %s but the model's schedule is exhausted" % pending_labels)
        v, labels = self.schedule.pop(0)
        if v != via or not set(labels) <= set(pending_labels):
            raise ReplayDiverged("model finishes %s via %s, the real scheduler waits via %s on %s" % (labels, v, via, pending_labels))
        return labels

    def finish_now(self, labels: List[str]) -> None:
        for l in labels:
            self.ev(self.release, l).set()

    def release_all(self) -> None:
        with self.lock:
            for e in self.release.values():
                e.set()
            self.release_everything = True

    release_everything = False


class RealPool(REAL_POOL):
    world: RealWorld = None  # type: ignore[assignment]

    def submit(self, fn: Any, *args: Any, **kwargs: Any) -> Any:  # type: ignore[override]
        w = self.world
        label, kind = None, "thread"
        owner = getattr(fn, "__self__", None)
        if isinstance(fn, functools.partial) and isinstance(getattr(fn.func, "__self__", None), contextvars.Context):
            kind = "async"
            inner = fn.args[0] if fn.args else None
            label = getattr(getattr(inner, "__self__", None), "id", None)
        elif owner is not None:
            label = getattr(owner, "id", None)
        if isinstance(label, str):
            label = label.split(".")[-1]  # a node of a nested DAG carries the dotted prefix of the DAG's name
        if label is not None:
            w.submitted_kind[label] = kind
        w.event("submit", kind)
        with w.lock:
            n = len([f for f in w.real_futures if not f.done()]) + 1
            if label is not None:
                w.monitor.m.pool_submission(label, n)
        fut = super().submit(fn, *args, **kwargs)
        w.real_futures.append(fut)
        w.uid += 1
        if kind == "thread":
            w.meta[id(fut)] = Pseudo(label, kind, fut, w.uid)
            w.keep.append(fut)
        if label is not None and not w.ev(w.entered, label).wait(8):
            w.event("queued", label)  # no free worker: the callable sits in the pool's queue
        return fut


class AsyncioProxy:
    """The real asyncio module with ensure_future / wait instrumented."""

    def __init__(self, world: RealWorld):
        self._w = world

    def __getattr__(self, name: str) -> Any:
        return getattr(real_asyncio, name)

    def ensure_future(self, coro: Any, **kw: Any) -> Any:
        w = self._w
        label = None
        try:
            fn = coro.cr_frame.f_locals.get("func")
            label = getattr(getattr(fn, "__self__", None), "id", None)
            if isinstance(label, str):
                label = label.split(".")[-1]
        except Exception:  # noqa: BLE001
            pass
        task = real_asyncio.ensure_future(coro, **kw)
        w.uid += 1
        w.meta[id(task)] = Pseudo(label, "async", task, w.uid)
        w.keep.append(task)
        w.event("ensure_future")
        with w.lock:
            w.monitor.dispatched(label)
        return task

    async def to_thread(self, func: Any, *args: Any, **kwargs: Any) -> Any:
        """asyncio.to_thread on an instrumented stand-in for the loop's default executor (same size as the model's)."""
        w = self._w
        if getattr(w, "default_pool", None) is None:
            w.default_pool = type("RealDefaultPool", (RealPool,), {"world": w})(max_workers=DEFAULT_EXECUTOR_WORKERS)
            w.pools.append(w.default_pool)
        ctx = contextvars.copy_context()
        loop = real_asyncio.get_running_loop()
        return await loop.run_in_executor(w.default_pool, functools.partial(ctx.run, func, *args, **kwargs))

    async def wait(self, fs: Any, *, timeout: Any = None, return_when: str = ALL_COMPLETED) -> Any:
        w = self._w
        fs = set(fs)
        if not fs:
            raise ValueError("Set of Tasks/Futures is empty.")
        await real_asyncio.sleep(0)  # the caller yields: tasks created by ensure_future start now
        for _ in range(200):
            if all((w.pseudo(f).label is None) or w.ev(w.entered, w.pseudo(f).label).is_set() or f.done() for f in fs):
                break
            await real_asyncio.sleep(0.005)
        await _wait_common(w, fs, return_when, "async")
        done, pend = await real_asyncio.wait(fs, timeout=timeout, return_when=return_when)
        for f in done:
            w.observe(f)
        return done, pend


async def _wait_common(w: RealWorld, fs: Set[Any], return_when: str, via: str) -> None:
    pend = sorted((f for f in fs if not f.done()), key=lambda f: w.pseudo(f).uid)
    already = [f for f in fs if f.done()]
    with w.lock:
        w.event("wait", via, return_when, tuple(w.pseudo(f).label for f in pend), tuple(w.pseudo(f).label for f in already))
    if already and (return_when != ALL_COMPLETED or not pend):
        return
    if not pend:
        return
    labels = [w.pseudo(f).label for f in pend]
    by_label = {w.pseudo(f).label: f for f in pend}
    with w.lock:
        w.monitor.blocked({w.pseudo(f) for f in pend}, via, return_when)
    order = w.next_finish(via, [l for l in labels if l is not None])
    with w.lock:
        w.event("finish", via, tuple(order))
    if return_when == ALL_COMPLETED:
        remaining = list(pend)
        for k, l in enumerate(order):
            if k:
                with w.lock:
                    w.monitor.blocked({w.pseudo(f) for f in remaining}, via, return_when)
            w.finish_now([l])
            await _join(by_label[l], via)
            remaining.remove(by_label[l])
    else:
        w.finish_now(order)
        for l in order:
            await _join(by_label[l], via)


async def _join(f: Any, via: str) -> None:
    for _ in range(6000):
        if f.done():
            return
        if via == "async":
            await real_asyncio.sleep(0.002)
        else:
            time.sleep(0.002)
    raise HarnessError("released node did not finish")


def real_wait_wrapper(w: RealWorld) -> Any:
    def wait(fs: Any, timeout: Any = None, return_when: str = ALL_COMPLETED) -> Any:
        fs = set(fs)
        if fs:
            co = _wait_common(w, fs, return_when, "conc")
            try:
                co.send(None)
                raise HarnessError("conc wait suspended")
            except StopIteration:
                pass
        r = REAL_WAIT(fs, timeout=timeout, return_when=return_when)
        for f in r.done:
            w.observe(f)
        return r

    return wait


class RealPatched:
    NAMES = ("ThreadPoolExecutor", "wait", "asyncio")

    def __init__(self, world: RealWorld):
        self.world = world
        self.saved: Dict[str, Any] = {}

    def __enter__(self) -> RealWorld:
        import tawazi._dag.helpers as H

        w = self.world
        for n in self.NAMES:
            self.saved[n] = getattr(H, n)
        pool_cls = type("RealPoolW", (RealPool,), {"world": w})
        H.ThreadPoolExecutor = pool_cls  # type: ignore
        H.wait = real_wait_wrapper(w)  # type: ignore
        H.asyncio = AsyncioProxy(w)  # type: ignore
        return w

    def __exit__(self, *a: Any) -> None:
        import tawazi._dag.helpers as H

        for n, v in self.saved.items():
            setattr(H, n, v)
        self.world.release_all()
