"""Nondeterministic model of the execution environment of tawazi's scheduler.

Only the *environment* is replaced: the names ``ThreadPoolExecutor``, ``wait`` and ``asyncio`` in the
namespace of ``tawazi._dag.helpers`` are rebound to the objects below for the duration of a harness
run.  No tawazi source is edited.  Contracts modelled:

* ``ThreadPoolExecutor.submit(fn, *a, **kw)``: fn runs exactly once on a worker; it *starts* at once
  (arguments are read as early as possible) and its effects (the write into the results map, the
  returned value / raised exception) become visible when the environment *finishes* the future
  (as late as possible) - every real timing of a node lies between these two extremes.
* ``concurrent.futures.wait(S, return_when)``: returns at once on an empty set or when a member is
  already done; otherwise FIRST_COMPLETED returns a solver-chosen non-empty subset of S,
  ALL_COMPLETED finishes S in a solver-chosen order.
* ``asyncio.ensure_future(coro)``: the task starts at the next suspension of the caller;
  ``loop.run_in_executor`` hands the callable to the same pool model; ``asyncio.wait`` raises
  ValueError on an empty set and is otherwise like ``wait``, and is a suspension point.
"""
from __future__ import annotations

import contextvars
import functools
import itertools
import math
import sys
from typing import Any, Callable, Dict, List, Optional, Set, Tuple

from .engine import Ctx, Inconclusive, SXControl, Violation

FIRST_COMPLETED = "FIRST_COMPLETED"
ALL_COMPLETED = "ALL_COMPLETED"
FIRST_EXCEPTION = "FIRST_EXCEPTION"


class InjectedFault(Exception):
    """The exception a node function raises when the fault variable of its node is true."""

    def __init__(self, label: str):
        super().__init__("injected fault in node %s" % label)
        self.label = label


class HarnessError(SXControl):
    """The model was used in a way it does not cover: never a verdict."""


class Spin(SXControl):
    """The scheduler executed too many lines without any environment event."""


class BufferedResults:
    """View of the scheduler's results map handed to a pooled node: reads go to the map as it is
    when the node runs, the node's own write is held back until the future is finished."""

    def __init__(self, base: Any):
        self.base = base
        self.buf: Dict[Any, Any] = {}

    def __contains__(self, k: Any) -> bool:
        return k in self.buf or k in self.base

    def __getitem__(self, k: Any) -> Any:
        if k in self.buf:
            return self.buf[k]
        return self.base[k]

    def __setitem__(self, k: Any, v: Any) -> None:
        self.buf[k] = v

    def get(self, k: Any, d: Any = None) -> Any:
        return self[k] if k in self else d

    def flush(self) -> None:
        for k, v in self.buf.items():
            self.base[k] = v
        self.buf.clear()


class FakeFuture:
    _ids = itertools.count()

    def __init__(self, world: "World", kind: str):
        self.world = world
        self.kind = kind  # 'thread' | 'async'
        self.label: Optional[str] = None  # harness label of the node function that ran in it
        self.started = False
        self.finished = False
        self.value: Any = None
        self.exc: Optional[BaseException] = None
        self.view: Optional[BufferedResults] = None
        self.uid = next(FakeFuture._ids)

    # concurrent.futures.Future / asyncio.Future surface used by schedulers
    def done(self) -> bool:
        return self.finished

    def cancelled(self) -> bool:
        return False

    def cancel(self) -> bool:
        return False

    def running(self) -> bool:
        return self.started and not self.finished

    def result(self, timeout: Any = None) -> Any:
        if not self.finished:
            # a blocking wait for this particular future
            self.world.wait_blocking({self}, ALL_COMPLETED, via="conc" if self.kind == "thread" else "async")
        self.world.observed_future(self)
        if self.exc is not None:
            raise self.exc
        return self.value

    def exception(self, timeout: Any = None) -> Optional[BaseException]:
        if not self.finished:
            self.world.wait_blocking({self}, ALL_COMPLETED, via="conc" if self.kind == "thread" else "async")
        self.world.observed_future(self)
        return self.exc

    def add_done_callback(self, fn: Callable[[Any], Any]) -> None:
        raise HarnessError("add_done_callback is not modelled")

    def __await__(self) -> Any:
        if not self.finished:
            yield self
        if not self.finished:
            raise HarnessError("future resumed before it finished")
        if self.exc is not None:
            raise self.exc
        return self.value

    def __hash__(self) -> int:
        return self.uid

    def __eq__(self, o: Any) -> bool:
        return self is o

    def __repr__(self) -> str:
        return "<FakeFuture %s %s%s>" % (self.kind, self.label, " done" if self.finished else "")


class FakeTask(FakeFuture):
    """asyncio task wrapping a coroutine that awaits one run_in_executor future."""

    def __init__(self, world: "World", coro: Any):
        super().__init__(world, "async")
        self.coro = coro
        self.inner: Optional[FakeFuture] = None
        self.was_cancelled = False

    @property
    def label(self) -> Optional[str]:  # type: ignore[override]
        return self.inner.label if self.inner is not None else self._label

    @label.setter
    def label(self, v: Optional[str]) -> None:
        self._label = v

    def cancel(self, msg: Any = None) -> bool:
        """A task that has not started yet is cancelled for good (its coroutine never runs); cancelling a task whose
        callable already runs on a worker cannot stop that callable (the model keeps it in flight)."""
        if self.finished:
            return False
        if not self.started:
            if self in self.world.pending_tasks:
                self.world.pending_tasks.remove(self)
            self.coro.close()
            self.was_cancelled = True
            self.finished = True
            import asyncio as _real

            self.exc = _real.CancelledError()
            self.world.event("cancel-pending-task")
            return True
        return True

    def cancelled(self) -> bool:
        return self.was_cancelled

    def start(self) -> None:
        self.started = True
        try:
            y = self.coro.send(None)
        except StopIteration as e:
            self.finished = True
            self.value = e.value
            return
        except SXControl:
            raise
        except BaseException as e:  # the coroutine failed before reaching the pool
            self.finished = True
            self.exc = e
            return
        if not isinstance(y, FakeFuture):
            raise HarnessError("task awaits something that is not modelled: %r" % (y,))
        self.inner = y
        self.view = None

    def finish_inner(self) -> None:
        assert self.inner is not None
        self.world.finish_future(self.inner)
        try:
            self.coro.send(None)
        except StopIteration as e:
            self.value = e.value
        except SXControl:
            raise
        except BaseException as e:
            self.exc = e
        else:
            raise HarnessError("task suspended a second time")
        self.finished = True


class FakePool:
    def __init__(self, world: "World", max_workers: Any = None):
        self.world = world
        self.max_workers = max_workers
        self.running: List[FakeFuture] = []  # callables occupying a worker
        self.queue: List[Tuple[FakeFuture, Any, Tuple[Any, ...], Dict[str, Any], bool]] = []
        world.pools.append(self)

    def has_free_worker(self) -> bool:
        self.running = [f for f in self.running if not f.finished]
        if self.max_workers is None:
            return True
        # (max_workers may be a symbolic integer: the comparison forks)
        return bool(len(self.running) < self.max_workers)

    def start_or_queue(self, fut: FakeFuture, fn: Any, args: Tuple[Any, ...], kwargs: Dict[str, Any], substituted: bool) -> None:
        fut.pool = self
        if self.has_free_worker():
            self.running.append(fut)
            self.world.run_in_future(fut, fn, args, kwargs, substituted=substituted)
        else:
            # the contract of ThreadPoolExecutor: at most max_workers callables run, the others wait in its queue
            self.world.event("queued", fut.kind)
            self.queue.append((fut, fn, args, kwargs, substituted))
            self.world.queued.append(fut)

    def worker_freed(self) -> None:
        while self.queue and self.has_free_worker():
            fut, fn, args, kwargs, substituted = self.queue.pop(0)
            self.world.queued.remove(fut)
            self.running.append(fut)
            self.world.run_in_future(fut, fn, args, kwargs, substituted=substituted)

    def __enter__(self) -> "FakePool":
        return self

    def __exit__(self, *a: Any) -> None:
        self.shutdown()

    def shutdown(self, wait: bool = True, cancel_futures: bool = False) -> None:
        # shutdown(wait=True) joins the workers: everything still in flight finishes - and the calling thread (in an
        # AsyncDAG the event-loop thread) is blocked until then
        if wait:
            mon = self.world.monitor
            if self.world.in_flight and mon is not None:
                mon.blocked(set(self.world.in_flight), "shutdown", ALL_COMPLETED)
            self.world.drain_at_shutdown()

    def submit(self, fn: Callable[..., Any], *args: Any, **kwargs: Any) -> FakeFuture:
        fut = FakeFuture(self.world, "thread")
        self.start_or_queue(fut, fn, args, kwargs, False)
        return fut


MAX_EXPIRED_WAITS = 2
DEFAULT_EXECUTOR_WORKERS = 5  # min(32, (os.cpu_count() or 1) + 4) on a one-CPU machine


class FakeLoop:
    def __init__(self, world: "World"):
        self.world = world

    def run_in_executor(self, executor: Any, func: Callable[..., Any], *args: Any) -> FakeFuture:
        if executor is None:
            # the event loop's default executor: min(32, cpus + 4) workers, shared by everything running in the loop;
            # the model takes the smallest machine (one CPU)
            if self.world.default_pool is None:
                self.world.default_pool = FakePool(self.world, DEFAULT_EXECUTOR_WORKERS)
            executor = self.world.default_pool
        if not isinstance(executor, FakePool):
            raise HarnessError("run_in_executor with an executor that is not modelled: %r" % (executor,))
        fut = FakeFuture(self.world, "async")
        # contextvars contract: a Context object can be entered by one running callable at a time
        owner = getattr(getattr(func, "func", None), "__self__", None)
        if isinstance(owner, contextvars.Context) and getattr(func.func, "__name__", "") == "run":
            holder = self.world.entered_contexts.get(id(owner))
            if holder is not None and not holder.finished:
                fut.started = True
                fut.exc = RuntimeError("cannot enter context: %r is already entered" % (owner,))
                self.world.event("submit", "async", "context-already-entered")
                self.world.in_flight.append(fut)
                return fut
            self.world.entered_contexts[id(owner)] = fut
        if isinstance(func, functools.partial) and "results" in func.keywords:
            view = BufferedResults(func.keywords["results"])
            fut.view = view
            kw = dict(func.keywords)
            kw["results"] = view
            func = functools.partial(func.func, *func.args, **kw)
        executor.start_or_queue(fut, func, args, {}, True)
        return fut


def task_label(coro: Any) -> Optional[str]:
    """Best effort: the node a coroutine handed to ensure_future will run (None when it cannot be told)."""
    try:
        for v in coro.cr_frame.f_locals.values():
            owner = getattr(v, "__self__", None)
            i = getattr(owner, "id", None)
            if isinstance(i, str):
                return i.split(".")[-1]
    except Exception:  # noqa: BLE001
        pass
    return None


class FakeAsyncio:
    """Stand-in for the asyncio module as used by tawazi._dag.helpers."""

    FIRST_COMPLETED = FIRST_COMPLETED
    ALL_COMPLETED = ALL_COMPLETED
    FIRST_EXCEPTION = FIRST_EXCEPTION
    Future = FakeFuture
    Task = FakeTask

    def __init__(self, world: "World"):
        self._world = world
        import asyncio as _real

        self.CancelledError = _real.CancelledError
        self.iscoroutine = _real.iscoroutine
        self.iscoroutinefunction = _real.iscoroutinefunction

    def get_running_loop(self) -> FakeLoop:
        return self._world.loop

    get_event_loop = get_running_loop

    def ensure_future(self, coro: Any) -> FakeFuture:
        if isinstance(coro, FakeFuture):
            return coro
        task = FakeTask(self._world, coro)
        self._world.pending_tasks.append(task)
        self._world.event("ensure_future")
        mon = self._world.monitor
        if mon is not None and hasattr(mon, "dispatched"):
            mon.dispatched(task_label(coro))
        return task

    create_task = ensure_future

    async def wait(self, fs: Any, *, timeout: Any = None, return_when: str = ALL_COMPLETED) -> Tuple[Set[Any], Set[Any]]:
        fs = set(fs)
        if not fs:
            raise ValueError("Set of Tasks/Futures is empty.")
        w = self._world
        if w.suspend is not None:
            await w.suspend()
        return w.wait_blocking(fs, return_when, via="async", timeout=timeout)

    def run(self, coro: Any) -> Any:
        return self._world.drive(coro)

    async def to_thread(self, func: Any, *args: Any, **kwargs: Any) -> Any:
        """asyncio.to_thread: runs func in the loop's default executor with a copy of the current context."""
        ctx = contextvars.copy_context()
        return await self._world.loop.run_in_executor(None, functools.partial(ctx.run, func, *args, **kwargs))

    def __getattr__(self, name: str) -> Any:
        if name.startswith("__"):
            raise AttributeError(name)
        raise HarnessError("asyncio.%s is not modelled" % name)


class World:
    """Environment state of one harness path + the monitors' view of it."""

    def __init__(self, c: Ctx, monitor: Any = None):
        self.c = c
        self.monitor = monitor
        # futures hash by uid: restart the numbering for every path, otherwise the iteration order of sets of futures -
        # and with it the scheduler's tie-breaking - would differ between re-executions of the same decision prefix
        FakeFuture._ids = itertools.count()
        self.pools: List[FakePool] = []
        self.loop = FakeLoop(self)
        self.asyncio = FakeAsyncio(self)
        self.pending_tasks: List[FakeTask] = []
        self.cur_future: Optional[FakeFuture] = None
        self.in_flight: List[FakeFuture] = []  # started and not finished, pool-run futures (not tasks)
        self.expired_waits = 0
        self.entered_contexts: Dict[int, FakeFuture] = {}
        self.queued: List[FakeFuture] = []  # handed to a pool whose workers are all busy
        self.default_pool: Optional[FakePool] = None
        self.deterministic = False
        self.suspend: Optional[Callable[[], Any]] = None
        self.events = 0
        self.lines = 0
        self.trace: List[Any] = []
        c.notes["trace"] = self.trace

    # ------------------------------------------------------------------ bookkeeping
    def event(self, what: str, *info: Any) -> None:
        self.events += 1
        self.lines = 0
        if self.events > 400:
            raise Spin("more than 400 environment events in one execution")
        self.trace.append((what,) + info)

    # ------------------------------------------------------------------ running node bodies
    def run_in_future(self, fut: FakeFuture, fn: Callable[..., Any], args: Tuple[Any, ...], kwargs: Dict[str, Any],
                      substituted: bool = False) -> None:
        if not substituted and "results" in kwargs:
            fut.view = BufferedResults(kwargs["results"])
            kwargs = dict(kwargs)
            kwargs["results"] = fut.view
        prev = self.cur_future
        self.cur_future = fut
        fut.started = True
        self.event("submit", fut.kind)
        try:
            fut.value = fn(*args, **kwargs)
        except SXControl:
            raise
        except BaseException as e:  # the worker stores whatever the callable raised
            fut.exc = e
        finally:
            self.cur_future = prev
        self.in_flight.append(fut)
        if self.monitor is not None:
            self.monitor.submitted(fut)

    def finish_future(self, fut: FakeFuture) -> None:
        if fut.finished:
            return
        if fut.view is not None:
            fut.view.flush()
        fut.finished = True
        if fut in self.in_flight:
            self.in_flight.remove(fut)
        pool = getattr(fut, "pool", None)
        if pool is not None:
            pool.worker_freed()

    def observed_future(self, fut: FakeFuture) -> None:
        if self.monitor is not None:
            self.monitor.observed(fut)

    def start_pending_tasks(self) -> None:
        tasks, self.pending_tasks = self.pending_tasks, []
        for t in tasks:
            t.start()

    # ------------------------------------------------------------------ waiting
    def _finish(self, f: FakeFuture) -> None:
        target = f.inner if isinstance(f, FakeTask) else f
        if target is not None and target in self.queued:
            raise HarnessError("the model was asked to finish a callable that is still queued in the pool")
        if isinstance(f, FakeTask):
            if f.inner is None:
                if not f.finished:
                    raise HarnessError("waiting for a task that never started")
            else:
                f.finish_inner()
        else:
            self.finish_future(f)

    def wait_blocking(self, fs: Set[FakeFuture], return_when: str, via: str, timeout: Any = None) -> Tuple[Set[Any], Set[Any]]:
        import concurrent.futures as cf

        c = self.c
        if timeout is not None and timeout != 0 and any(not getattr(f, "finished", True) for f in fs):
            # a bounded wait: node functions may run for any length of time, so the timeout can expire with nothing finished
            # (at most MAX_EXPIRED_WAITS times per path - afterwards the nodes are assumed to make progress)
            if self.expired_waits < MAX_EXPIRED_WAITS and c.choose(2, "timeout_expires"):
                self.expired_waits += 1
                if via == "async":
                    self.start_pending_tasks()  # the caller yielded to the event loop meanwhile
                already = {f for f in fs if getattr(f, "finished", False)}
                self.event("wait-timeout", via, tuple(getattr(f, "label", None) for f in sorted(set(fs) - already, key=lambda f: getattr(f, "uid", 0))))
                for f in already:
                    self.observed_future(f)
                return already, set(fs) - already
            timeout = None
        # futures the code under test completed by itself (concurrent.futures.Future().set_result(...)) are plain finished
        # futures: a wait returns them at once
        foreign = {f for f in fs if not isinstance(f, FakeFuture)}
        for f in foreign:
            if not (via == "conc" and isinstance(f, cf.Future) and f.done()):
                raise HarnessError("waiting for an object that is not modelled: %r" % (f,))
        if foreign:
            fs = set(fs) - foreign
            fake_done = {f for f in fs if f.finished}
            self.event("wait", via, return_when, tuple(f.label for f in sorted(fs - fake_done, key=lambda f: f.uid)), ("<finished future>",) * len(foreign))
            if return_when != ALL_COMPLETED or fake_done == fs:
                for f in fake_done:
                    self.observed_future(f)
                return foreign | fake_done, fs - fake_done
            done, pend = self.wait_blocking(fs, return_when, via)
            return done | foreign, pend
        if timeout == 0:
            # a poll: only what already finished is returned, nothing finishes meanwhile
            already = {f for f in fs if f.finished}
            self.event("poll", via, tuple(f.label for f in sorted(fs - already, key=lambda f: f.uid)), tuple(f.label for f in already))
            for f in already:
                self.observed_future(f)
            return already, fs - already
            if via == "async" and not isinstance(f, FakeTask) and f.kind != "async":
                raise TypeError("asyncio.wait on a concurrent future")
        if via == "async":
            # the caller yields to the event loop: tasks created by ensure_future start now
            self.start_pending_tasks()
        else:
            for f in fs:
                if isinstance(f, FakeTask) and not f.started:
                    raise HarnessError("blocking wait on an asyncio task that cannot start (loop is blocked)")
        already = {f for f in fs if f.finished}
        pending = sorted((f for f in fs if not f.finished), key=lambda f: f.uid)
        self.event("wait", via, return_when, tuple(f.label for f in pending), tuple(f.label for f in already))
        if already and (return_when != ALL_COMPLETED or not pending):
            for f in already:
                self.observed_future(f)
            return already, set(pending)
        if not pending:
            return set(), set()
        mon = self.monitor
        if return_when == ALL_COMPLETED:
            order = list(pending)
            if len(order) > 1 and not self.deterministic:
                k = c.choose(math.factorial(len(order)), "perm")
                order = list(list(itertools.permutations(order))[k])
            self.event("finish", via, tuple(f.label for f in order))
            remaining = list(order)
            while remaining:
                if mon is not None:
                    mon.blocked(set(remaining), via, return_when)
                f = next((g for g in remaining if not self.is_queued(g)), None)
                if f is None:
                    raise HarnessError("the scheduler waits for callables that can never start; trace=%r pools=%r" % (
                        self.trace[-12:], [(p.max_workers, [(x.label, x.finished) for x in p.running], len(p.queue)) for p in self.pools]))
                self._finish(f)
                remaining.remove(f)
            done = set(order) | already
            for f in done:
                self.observed_future(f)
            return done, set()
        # FIRST_COMPLETED / FIRST_EXCEPTION: a non-empty subset finishes
        if mon is not None:
            mon.blocked(set(pending), via, return_when)
        # only callables that occupy a worker can finish; those queued in the pool start when a worker is freed
        cand = [f for f in pending if not self.is_queued(f)]
        if not cand:
            for g in list(self.in_flight):  # everything running elsewhere finishes, which frees workers
                self.finish_future(g)
            cand = [f for f in pending if not self.is_queued(f)]
            if not cand:
                raise HarnessError("the scheduler waits for callables that can never start (all queued, no worker can be freed)")
        n = len(cand)
        if self.deterministic:
            k = 2**n - 1
        else:
            k = c.choose(2**n - 1, "done") + 1 if n > 1 else 1
        done = {f for i, f in enumerate(cand) if (k >> i) & 1}
        self.event("finish", via, tuple(f.label for f in sorted(done, key=lambda f: f.uid)))
        for f in sorted(done, key=lambda f: f.uid):
            self._finish(f)
        for f in done:
            self.observed_future(f)
        return done, set(pending) - done

    def is_queued(self, f: FakeFuture) -> bool:
        target = f.inner if isinstance(f, FakeTask) else f
        return target is not None and target in self.queued

    def wait(self, fs: Any, timeout: Any = None, return_when: str = ALL_COMPLETED) -> Any:
        import concurrent.futures as cf

        fs = set(fs)
        if not fs:
            return cf._base.DoneAndNotDoneFutures(set(), set())
        done, not_done = self.wait_blocking(fs, return_when, via="conc", timeout=timeout)
        return cf._base.DoneAndNotDoneFutures(done, not_done)

    def drain_at_shutdown(self) -> None:
        for f in list(self.in_flight):
            self.finish_future(f)

    # ------------------------------------------------------------------ coroutine driving
    def drive(self, coro: Any) -> Any:
        try:
            y = coro.send(None)
        except StopIteration as e:
            return e.value
        raise HarnessError("coroutine suspended where no suspension is modelled: %r" % (y,))


class Patched:
    """Context manager rebinding the environment names in tawazi._dag.helpers."""

    NAMES = ("ThreadPoolExecutor", "wait", "asyncio")

    def __init__(self, world: World):
        self.world = world
        self.saved: Dict[str, Any] = {}

    def __enter__(self) -> World:
        import tawazi._dag.helpers as H

        w = self.world
        for n in self.NAMES:
            self.saved[n] = getattr(H, n)
        H.ThreadPoolExecutor = lambda max_workers=None, *a, **k: FakePool(w, max_workers)  # type: ignore
        H.wait = w.wait  # type: ignore
        H.asyncio = w.asyncio  # type: ignore
        return w

    def __exit__(self, *a: Any) -> None:
        import tawazi._dag.helpers as H

        for n, v in self.saved.items():
            setattr(H, n, v)


# ----------------------------------------------------------------------------------------------
# spin watchdog: count executed lines of the scheduler module between environment events
# ----------------------------------------------------------------------------------------------
_WATCH: Dict[str, Any] = {"world": None, "installed": False}
LINE_BUDGET = 3000


class Budget:
    """Watchdog for harnesses that run on the real pool / loop: total scheduler lines per path."""

    def __init__(self, limit: int = 300000):
        self.lines = 0
        self.line_budget = limit


def _line_cb(code: Any, line: int) -> Any:
    w = _WATCH["world"]
    if w is not None:
        w.lines += 1
        if w.lines > getattr(w, "line_budget", LINE_BUDGET):
            n = w.lines
            w.lines = 0
            raise Spin("scheduler executed %d lines without progress (at %s:%d)" % (n, code.co_name, line))
    return None


def install_watchdog() -> None:
    if _WATCH["installed"]:
        return
    import types

    import tawazi._dag.helpers as H

    mon = sys.monitoring
    tool = 4
    try:
        mon.use_tool_id(tool, "sx-spin")
    except ValueError:
        pass
    mon.register_callback(tool, mon.events.LINE, _line_cb)
    import tawazi._dag.dag as D
    import tawazi._dag.digraph as G

    def watch_module(mod: Any) -> None:
        for obj in vars(mod).values():
            if isinstance(obj, types.FunctionType) and obj.__module__ == mod.__name__:
                mon.set_local_events(tool, obj.__code__, mon.events.LINE)
            elif isinstance(obj, type) and obj.__module__ == mod.__name__:
                for m in vars(obj).values():
                    f = getattr(m, "__func__", m)
                    f = getattr(f, "fget", f)
                    if isinstance(f, types.FunctionType):
                        mon.set_local_events(tool, f.__code__, mon.events.LINE)

    # the scheduler module, and the graph / DAG modules (a loop that never ends there would hang the check as well)
    for mod in (H, G, D):
        watch_module(mod)
    _WATCH["installed"] = True


def watch(world: Optional[World]) -> None:
    _WATCH["world"] = world
