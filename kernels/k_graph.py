"""CrossHair kernel over the real DiGraphEx.assign_compound_priority: symbolic edges and priorities, N = 3."""
from typing import List

import networkx as nx

from tawazi._dag.digraph import DiGraphEx

# networkx compiles some functions lazily with exec(), which fails under CrossHair's tracing: warm them up
_g = DiGraphEx()
_g.add_edges_from([("a", "b"), ("b", "c")])
nx.descendants(_g, "a")
nx.ancestors(_g, "c")
list(nx.topological_sort(_g))
_g.compound_priority["a"] = 1
_g.assign_compound_priority()
list(nx.dfs_tree(_g, "a").nodes())


def k7_compound_priority_counts_each_descendant_once(e01: bool, e02: bool, e12: bool, p: List[int]) -> List[int]:
    """
    pre: len(p) == 3
    post: _ == [p[0] + (p[1] if (e01) else 0) + (p[2] if (e02 or (e01 and e12)) else 0), p[1] + (p[2] if e12 else 0), p[2]]
    """
    g = DiGraphEx()
    names = ["n0", "n1", "n2"]
    for n in names:
        g.add_node(n)
    if e01:
        g.add_edge("n0", "n1")
    if e02:
        g.add_edge("n0", "n2")
    if e12:
        g.add_edge("n1", "n2")
    for n, v in zip(names, p):
        g.compound_priority[n] = v
    g.assign_compound_priority()
    return [g.compound_priority[n] for n in names]
