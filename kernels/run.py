"""Runs the CrossHair kernels: one `crosshair check` process per condition, results as a list of dicts."""
import ast
import concurrent.futures as cf
import os
import subprocess
import sys
import time

HERE = os.path.dirname(os.path.abspath(__file__))
PY = os.path.join(os.path.dirname(HERE), ".venv", "bin", "python")


def conditions(path):
    tree = ast.parse(open(path).read())
    out = []
    for node in tree.body:
        if isinstance(node, ast.FunctionDef) and node.name.startswith("k") and ast.get_docstring(node) and "post:" in ast.get_docstring(node):
            out.append((node.name, node.lineno + 1))
    return out


def run_one(path, name, line, timeout):
    t0 = time.time()
    cmd = [PY, "-m", "crosshair", "check", "--report_all", "--per_condition_timeout", str(timeout), "%s:%d" % (path, line)]
    env = dict(os.environ, PYTHONHASHSEED="0")
    try:
        p = subprocess.run(cmd, capture_output=True, text=True, timeout=timeout * 3 + 60, env=env, cwd=HERE)
        out = (p.stdout + p.stderr).strip()
    except subprocess.TimeoutExpired:
        out = "timeout"
    if "Confirmed over all paths" in out:
        verdict = "confirmed"
    elif ": error:" in out:
        verdict = "counterexample"
    else:
        verdict = "inconclusive"
    return {"kernel": name, "file": os.path.basename(path), "verdict": verdict, "seconds": round(time.time() - t0, 1), "output": out[-600:]}


def run(files, names=None, timeout=40):
    jobs = []
    for f in files:
        path = os.path.join(HERE, f)
        for name, line in conditions(path):
            if names is None or any(name.startswith(n) for n in names):
                jobs.append((path, name, line, timeout))
    with cf.ThreadPoolExecutor(max_workers=12) as ex:
        return list(ex.map(lambda j: run_one(*j), jobs))


if __name__ == "__main__":
    res = run(sys.argv[1:] or ["k_front.py", "k_graph.py"])
    for r in res:
        print(r["verdict"], r["kernel"], r["seconds"], "" if r["verdict"] == "confirmed" else r["output"][-300:])
