"""CrossHair kernels (PEP-316 contracts) over leaf functions of tawazi's front end.

Each function below is a property of the REAL function it calls; `crosshair check` executes it with symbolic
ints / lists / dicts and either confirms the postcondition over all paths within the stated size bounds or
returns a counterexample.  Run by kernels/run.py (one process per condition).
"""
from typing import Dict, List, Optional, Tuple

import networkx as nx  # noqa: F401

from tawazi._dag.helpers import BiDict, extend_results_with_args, get_return_values
from tawazi._helpers import StrictDict, ordinal
from tawazi.node.helpers import _lazy_xn_id, make_suffix
from tawazi.node.node import ExecNode, LazyExecNode, make_axn_id
from tawazi.node.uxn import UsageExecNode

# CrossHair's contract cache hashes the LazyExecNode objects that tawazi.node.extend installs as operator methods on
# UsageExecNode; the frozen dataclass hash fails on list fields.  Identity hash, inside this module only.
ExecNode.__hash__ = LazyExecNode.__hash__ = lambda self: id(self)  # type: ignore[assignment]


# ---------------------------------------------------------------- K2: key paths
def k2_result_follows_two_level_key_path(data: List[List[int]], i: int, j: int) -> int:
    """
    pre: len(data) <= 3 and all(len(row) <= 3 for row in data)
    pre: 0 <= i < len(data) and 0 <= j < len(data[i])
    post: _ == data[i][j]
    """
    u = UsageExecNode("a")[i][j]
    return u.result({"a": data, "b": [[j]]})


def k2_result_follows_dict_key_path(data: Dict[int, List[int]], k: int, j: int) -> int:
    """
    pre: len(data) <= 3 and k in data and 0 <= j < len(data[k]) <= 3
    post: _ == data[k][j]
    """
    return UsageExecNode("a")[k][j].result({"a": data})


def k2_missing_id_reads_none(data: List[int], i: int, present: bool) -> Optional[int]:
    """
    pre: 0 <= i < len(data) <= 3
    post: _ == (data[i] if present else None)
    """
    results = {"a": data} if present else {"b": data}
    return UsageExecNode("a")[i].result(results)


def k2_indexing_does_not_mutate_the_original(keys: List[int]) -> Tuple[int, int]:
    """
    pre: len(keys) <= 4
    post: _ == (0, len(keys))
    """
    u = UsageExecNode("a")
    v = u
    for k in keys:
        v = v[k]
    return (len(u.key), len(v.key))


# ---------------------------------------------------------------- K3: argument binding
def k3_arguments_override_defaults_positionally(defaults: List[int], args: List[int]) -> List[int]:
    """
    pre: len(defaults) <= 3 and len(args) <= len(defaults)
    post: _ == args + defaults[len(args):]
    """
    names = ["p%d" % i for i in range(len(defaults))]
    results: StrictDict[str, int] = StrictDict((n, d) for n, d in zip(names, defaults))
    uxns = [UsageExecNode(n) for n in names]
    out = extend_results_with_args(results, uxns, *args)
    assert [results[n] for n in names] == defaults, "the DAG-level results map was modified"
    return [out[n] for n in names]


def k3_too_many_arguments_are_refused(nparams: int, nargs: int) -> bool:
    """
    pre: 0 <= nparams <= 3 and 0 <= nargs <= 5
    post: _ == (nargs > nparams)
    """
    names = ["p%d" % i for i in range(nparams)]
    results: StrictDict[str, int] = StrictDict((n, 0) for n in names)
    try:
        extend_results_with_args(results, [UsageExecNode(n) for n in names], *range(nargs))
    except TypeError:
        return True
    return False


# ---------------------------------------------------------------- K4: return shapes
def k4_return_shapes(vals: List[int], shape: int, missing: bool) -> object:
    """
    pre: len(vals) == 2 and 0 <= shape <= 4
    post: _ == [None, vals[0], (vals[0], w(vals[1], missing)), [vals[0], w(vals[1], missing)], {"x": vals[0], "y": w(vals[1], missing)}][shape]
    """
    results = {"a": vals[0]} if missing else {"a": vals[0], "b": vals[1]}
    a, b = UsageExecNode("a"), UsageExecNode("b")
    uxns: object = [None, a, (a, b), [a, b], {"x": a, "y": b}][shape]
    return get_return_values(uxns, results)  # type: ignore[arg-type]


def w(v: int, missing: bool) -> Optional[int]:
    return None if missing else v


# ---------------------------------------------------------------- K5: write-once maps
def k5_strictdict_refuses_a_second_write(k: int, v1: int, v2: int) -> Tuple[bool, int]:
    """
    pre: 0 <= k < 4 and -2 <= v1 <= 2 and -2 <= v2 <= 2
    post: _ == (True, v1 if k >= 2 else 0)
    """
    d: StrictDict[int, int] = StrictDict({0: 0, 1: 0})
    if k not in d:
        d[k] = v1
    try:
        d[k] = v2
        return (False, d[k])
    except KeyError:
        return (True, d[k])


def k5_force_set_overrides(k: int, v1: int, v2: int) -> int:
    """
    pre: 0 <= k < 3
    post: _ == v2
    """
    d: StrictDict[int, int] = StrictDict()
    d[k] = v1
    d.force_set(k, v2)
    return d[k]


def k5_bidict_inverse_is_consistent(b1: int, b2: int, v: int) -> bool:
    """
    pre: 0 <= b1 < 3 and 0 <= b2 < 3 and 0 <= v < 3
    post: _
    """
    # the scheduler's use: every key (node id) is written once; a value already present must be refused without
    # damaging the map.  (Re-writing an existing key with a value that is taken leaves BiDict inconsistent - a latent
    # defect of the helper that no scheduler path reaches; reported in DESIGN.md, not a property violation.)
    b: BiDict[int, int] = BiDict()
    for kk, vv in ((0, b1), (1, b2), (2, v)):
        try:
            b[kk] = vv
        except ValueError:
            pass
    return all(b.inverse[val] == key for key, val in b.items()) and len(b.inverse) == len(b)


# ---------------------------------------------------------------- K6: id suffixes
def k6_ordinal_is_injective(n: int, m: int) -> bool:
    """
    pre: 0 <= n < 130 and 0 <= m < 130 and n != m
    post: _
    """
    return ordinal(n) != ordinal(m) and make_axn_id("f", n) != make_axn_id("f", m)


def k6_ordinal_spells_the_number(n: int) -> bool:
    """
    pre: 0 <= n < 130
    post: _
    """
    s = ordinal(n)
    return s[:-2] == str(n) and s[-2:] in ("st", "nd", "rd", "th") and make_suffix(n) == s + " argument"


def k6_reuse_ids_are_distinct(n: int, m: int) -> bool:
    """
    pre: 0 <= n < 12 and 0 <= m < 12 and n != m
    post: _
    """
    return _lazy_xn_id("f", n) != _lazy_xn_id("f", m)
