"""Concrete reproductions of the defects F1..F11 (DESIGN.md section 5) through the public API.
Each function returns (ok, detail); ok=True means the property-conforming behaviour was observed."""
import sys, threading, tempfile, os, pickle
from tawazi import xn, dag, DAG, cfg, Resource

def F1():
    @xn(priority=1)
    def a(): return 1
    @xn(priority=10)
    def b(x): return x
    @xn(priority=100)
    def c(x, y): return x
    @dag
    def d():
        ra = a(); rb = b(ra); rc = c(ra, rb); return rc
    cp = d.graph_ids.compound_priority
    return cp[a.id] == 111, dict((k, v) for k, v in cp.items() if ">!>" not in k)

def F2():
    @xn(priority=5)
    def a(): return 1
    @xn(priority=7)
    def b(x): return x
    @dag
    def d():
        return b(a())
    ex = d.executor(target_nodes=[b])
    cp = dict(ex.graph.compound_priority)
    return cp.get(a.id) == 12 and cp.get(b.id) == 7, cp

def F3():
    cfg.RUN_DEBUG_NODES = False
    ran = []
    @xn
    def n1(): ran.append("n1"); return 1
    @xn
    def n2(x): ran.append("n2"); return x
    @xn(debug=True)
    def dbg(x): ran.append("dbg"); return x
    @dag
    def d():
        r1 = n1(); r2 = n2(r1); dbg(r2); return r2
    d.executor(target_nodes=[n2, dbg])()
    r1 = list(ran); ran.clear()
    d.executor(root_nodes=[n1])()
    return "dbg" not in r1 and "dbg" not in ran, (r1, list(ran))

def F4():
    ran = []
    @xn
    def flags(): return (False, True)
    @xn
    def work(): ran.append(1); return 7
    @dag
    def d():
        f = flags()
        return work(twz_active=f[0])
    r = d()
    return r is None and not ran, (r, ran)

def F5():
    ran = []
    @xn
    def inner_n(x): ran.append(1); return x
    @dag
    def inner(x):
        return inner_n(x)
    @dag
    def outer(x):
        return inner(x, twz_active=False)
    r = outer(3)
    return r is None and not ran, (r, ran)

def F6():
    ran = []
    @xn
    def a(): ran.append("a"); return 1
    @xn
    def b(x): ran.append("b"); return x + 1
    @xn
    def c(x): ran.append("c"); return x + 1
    @dag
    def d():
        return c(b(a()))
    tmp = tempfile.mkdtemp()
    f = os.path.join(tmp, "c.pkl")
    r1 = d.executor(cache_in=f)()
    ran.clear()
    r2 = d.executor(from_cache=f)()
    ok1 = (r1 == r2 and ran == [])
    det = [(r1, r2, list(ran))]
    f2 = os.path.join(tmp, "c2.pkl")
    ran.clear()
    try:
        d.executor(cache_deps_of=[c], cache_in=f2)()
        content = sorted(pickle.load(open(f2, "rb")))
        ran.clear()
        r3 = d.executor(cache_deps_of=[c], from_cache=f2)()
        ok2 = (r3 == r1 and ran == ["c"] and c.id not in content and a.id in content and b.id in content)
        det.append((r3, list(ran), content))
    except BaseException as e:
        ok2 = False; det.append(repr(e))
    return ok1 and ok2, det

def F7():
    state = {"fail": True}
    @xn
    def g1(): return 1
    @xn
    def g2(x):
        if state["fail"]:
            raise ValueError("boom")
        return 2
    @dag
    def d():
        r1 = g1(); r2 = g2(r1); return r1, r2
    ex = d.executor()
    try:
        ex()
    except BaseException:
        pass
    state["fail"] = False
    try:
        r = ex()
    except BaseException as e:
        return True, "refused: %r" % (e,)
    return r == (1, 2), r

def F8():
    @xn
    def idn(x): return x
    @dag
    def inner(x=2):
        return idn(x)
    @dag
    def outer1(v):
        return inner(5)
    @dag
    def outer2(v):
        return inner(v)
    r = (outer1(9), outer2(9))
    return r == (5, 9), r

def F9():
    import time
    @xn
    def p_n(x): return x + 1
    @dag
    def p(x): return p_n(x)
    @xn
    def a(x): return x * 2
    cfg.TAWAZI_EXECNODE_OUTSIDE_DAG_BEHAVIOR = "ignore"
    inside = threading.Event(); go = threading.Event()
    out = {}
    def builder():
        @xn
        def q(x): return x
        def descr(x):
            r = q(x)
            inside.set(); go.wait(5)
            return r
        out["dag"] = dag(descr)
    t = threading.Thread(target=builder); t.start()
    inside.wait(5)
    res = {}
    def other():
        try:
            res["p"] = p(1)
        except BaseException as e:
            res["p"] = repr(e)
        try:
            res["a"] = a(1)
        except BaseException as e:
            res["a"] = repr(e)
    t2 = threading.Thread(target=other); t2.start()
    t2.join(2)
    blocked = t2.is_alive()
    go.set(); t.join(); t2.join()
    ids = sorted(out["dag"].exec_nodes)
    res = {k: (v if isinstance(v, (int, str)) else "<%s>" % type(v).__name__) for k, v in res.items()}
    ok = res.get("p") == 2 and res.get("a") == 2 and all("p_n" not in i and i.split(">")[0] != "F9.<locals>.a" for i in ids)
    return ok, (res, ids, blocked)

def F11():
    @xn
    def flag(): return True
    @xn
    def src(): return 3
    @xn
    def work(x): return x + 1
    @dag
    def d():
        f = flag(); s = src()
        return work(s, twz_active=f)
    try:
        c = d.compose("c", inputs=[flag, src], outputs=work)
        r1 = c(True, 10); r2 = c(False, 10)
    except BaseException as e:
        return False, repr(e)
    return r1 == 11 and r2 is None, (r1, r2)

def F12():
    """AsyncDAG: an async-thread node dispatched (asyncio.ensure_future) before a main-thread node fails is started
    after the call has raised (the pending task stays in the user's event loop)."""
    import asyncio
    ran = []

    @xn(resource=Resource.async_thread, priority=10)
    def a():
        ran.append("a")

    @xn(resource=Resource.main_thread, priority=1)
    def m():
        raise ValueError("boom")

    @dag(is_async=True, max_concurrency=2)
    def d():
        a()
        m()

    async def main():
        raised = None
        try:
            await d()
        except BaseException as e:
            raised = e
        at_raise = list(ran)
        await asyncio.sleep(0.2)
        return raised, at_raise, list(ran)

    raised, at_raise, later = asyncio.run(main())
    return raised is not None and later == at_raise, (repr(raised)[:80], at_raise, later)


if __name__ == "__main__":
    names = sys.argv[1:] or ["F1","F2","F3","F4","F5","F6","F7","F8","F9","F11","F12"]
    bad = 0
    for n in names:
        try:
            ok, det = globals()[n]()
        except BaseException as e:
            ok, det = False, "EXC %r" % (e,)
        print(n, "OK" if ok else "DEFECT", det)
        bad += not ok
    sys.exit(1 if bad else 0)
