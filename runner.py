"""Runs the parts (harness explorations, kernels) of one property check, decides the verdict, replays
counterexamples, writes the evidence file and prints VIOLATION / KNOWN-FINDING lines."""
from __future__ import annotations

import hashlib
import json
import os
import sys
import time
from typing import Any, Callable, Dict, List, Optional

ROOT = os.path.dirname(os.path.abspath(__file__))
sys.path.insert(0, ROOT)
OUT = os.environ.get("VERIF_OUT") or ROOT  # (only the seeded-change matrix redirects its output)
REPO = os.environ.get("VERIF_REPO") or "/repo"

from sx import engine  # noqa: E402

EXIT_OK, EXIT_VIOLATION, EXIT_HARNESS = 0, 1, 2


class Part:
    """One exploration: harness = picklable callable taking the Ctx."""

    def __init__(self, name: str, harness: Callable[[Any], Any], bounds: Dict[str, Any], budget_s: float = 600.0,
                 split_depth: int = 6, require: Optional[List[str]] = None, functions: Optional[List[str]] = None,
                 expect_violation: bool = False, real_replay: Optional[Callable[[Dict[str, Any]], Dict[str, Any]]] = None,
                 canonical: Optional[Callable[[Any], Any]] = None, validate_n: int = 4):
        self.name = name
        self.harness = harness
        self.bounds = bounds
        self.budget_s = budget_s
        self.split_depth = split_depth
        self.require = require or []  # coverage witnesses that must be non-zero (vacuity guard)
        self.functions = functions or []
        self.expect_violation = expect_violation  # reachability twin: must come back violated
        self.real_replay = real_replay  # replays a recorded path on the real thread pool / event loop
        self.canonical = canonical
        self.validate_n = validate_n


def load_known() -> Dict[str, Any]:
    with open(os.path.join(ROOT, "known_findings.json")) as f:
        return json.load(f)


def source_hashes() -> Dict[str, str]:
    out = {}
    base = REPO + "/tawazi"
    for dp, _, fns in os.walk(base):
        for fn in sorted(fns):
            if fn.endswith(".py"):
                p = os.path.join(dp, fn)
                out[os.path.relpath(p, REPO)] = hashlib.sha256(open(p, "rb").read()).hexdigest()[:16]
    return out


def functions_executed(harness: Callable[[Any], Any]) -> List[str]:
    """tawazi functions entered while the first path of a harness runs (measured, not declared)."""
    import threading

    seen = set()

    def prof(frame: Any, event: str, arg: Any) -> None:
        if event == "call":
            fn = frame.f_code.co_filename
            if "/tawazi/" in fn and "/verif/" not in fn:
                seen.add("%s:%s" % (fn.split("/tawazi/", 1)[1], frame.f_code.co_qualname))

    c = engine.Ctx()
    engine.base_axioms(c.solver)
    engine._CTX = c
    c.begin_path()
    sys.setprofile(prof)
    threading.setprofile(prof)
    try:
        harness(c)
    except BaseException:  # noqa: BLE001
        pass
    finally:
        sys.setprofile(None)
        threading.setprofile(None)  # type: ignore[arg-type]
        c.end_path()
    return sorted(seen)


def _cov_json(cov: Dict[str, Any]) -> Dict[str, Any]:
    return {k: (len(v) if isinstance(v, (set, frozenset)) else v) for k, v in cov.items()}


def run_check(pid: str, tier: str, level: str, parts: List[Part], assumptions: List[str], rule: str,
              extra: Optional[Callable[[], Dict[str, Any]]] = None) -> int:
    seed = int(os.environ.get("VERIF_SEED", "0") or 0)
    t0 = time.time()
    known = load_known()
    known_for = {k["id"]: k for k in known.get("known", []) if k["property"] == pid}
    os.makedirs(os.path.join(OUT, "evidence"), exist_ok=True)
    os.makedirs(os.path.join(OUT, "replays"), exist_ok=True)
    status = EXIT_OK
    lines: List[str] = []
    part_reports = []
    total = engine.Stats()
    states = transitions = 0
    samples: List[Any] = []
    known_hits: Dict[str, Any] = {}
    violations = 0
    twins_ok = 0
    validated = 0
    only = os.environ.get("VERIF_ONLY_PART")  # development only: run the parts whose name contains this string
    for part in parts:
        if violations and os.environ.get("VERIF_STOP_AT_FIRST"):
            break  # (seeded-change matrix only: one confirmed violation is enough)
        if only and only not in part.name:
            continue
        r = engine.explore(part.harness, budget_s=part.budget_s, split_depth=part.split_depth)
        rep: Dict[str, Any] = {
            "part": part.name, "bounds": part.bounds, "stats": r.stats.as_dict(), "wall_s": round(r.wall_s, 2),
            "work_items": r.items, "coverage": _cov_json(r.coverage), "functions_encoded": part.functions,
        }
        try:
            rep["functions_executed_on_first_path"] = functions_executed(part.harness)
        except Exception as e:  # noqa: BLE001
            rep["functions_executed_on_first_path"] = ["measurement failed: %r" % (e,)]
        total.add(r.stats.as_dict())
        states += len(r.coverage.get("states", ())) if isinstance(r.coverage.get("states"), set) else 0
        transitions += int(r.coverage.get("transitions", 0) or 0)
        for s in r.samples[:2]:
            samples.append({"part": part.name, "case": s})
        for k in r.known:
            known_hits.setdefault(k["known"], k)
        if r.errors:
            rep["errors"] = r.errors[:3]
        if part.expect_violation:
            # vacuity guard: the twin's final check(False) must be reachable
            if r.violation is not None:
                rep["verdict"] = "twin violated as required"
                twins_ok += 1
            else:
                rep["verdict"] = "VACUOUS: reachability twin was not violated"
                lines.append("HARNESS-ERROR property=%s part=%s reachability twin not violated" % (pid, part.name))
                status = max(status, EXIT_HARNESS)
            part_reports.append(rep)
            continue
        if r.violation is not None:
            rec = r.violation
            path = os.path.join(OUT, "replays", "%s-%s-%d.json" % (pid, part.name, int(time.time())))
            rec["part"] = part.name
            if "neither returns nor raises" in str(rec.get("msg", "")):
                # a blocked call was interrupted in this process (a lock of the library may still be held): confirm in a fresh one
                rp = _replay_in_subprocess(pid, rec, path)
            else:
                rp = engine.replay(part.harness, rec)
            rec["replay"] = {k: (v if k != "violation" else (v or {}).get("msg")) for k, v in rp.items()}
            with open(path, "w") as f:
                json.dump(engine._jsonable(rec), f, indent=1)
            real = None
            if rp["reproduced"] and part.real_replay is not None:
                try:
                    real = part.real_replay(rec)
                except Exception as e:  # noqa: BLE001
                    real = {"status": "error", "error": repr(e)}
                rec["replay_on_real_pool"] = real
                with open(path, "w") as f:
                    json.dump(engine._jsonable(rec), f, indent=1)
            model_tr = part.canonical([tuple(e) for e in rec.get("notes", [])]) if (part.canonical is not None and real is not None) else None
            faithful = bool(real is not None and real.get("status") == "completed" and model_tr is not None
                            and real.get("trace", [])[: len(model_tr)] == model_tr)
            if rp["reproduced"]:
                violations += 1
                if real is not None:
                    # The concrete replay above already re-ran the real code with concrete values.  The replay on the real
                    # pool is a second confirmation: it can legitimately differ where the outcome depends on the iteration
                    # order of sets of real future objects (they hash by address), so "completed" is reported, not judged;
                    # the faithfulness of the environment model itself is validated on sampled paths on every run.
                    lines.append("  real thread pool / event loop replay: %s %s" % (
                        "same events, no violation observed" if faithful else real.get("status"), real.get("violation") or real.get("error") or ""))
                rep["verdict"] = "violation (replay reproduced): %s" % rec["msg"]
                lines.append("VIOLATION property=%s replay=%s" % (pid, path))
                lines.append("  %s" % rec["msg"])
                lines.append("  model=%s" % json.dumps(rec["model"], sort_keys=True))
                status = EXIT_VIOLATION  # a replay-confirmed violation is definite, whatever else was inconclusive
            else:
                rep["verdict"] = "counterexample did not reproduce in replay: %s" % (rp.get("error") or rp.get("violation"))
                lines.append("HARNESS-ERROR property=%s part=%s counterexample not reproduced (%s): %s" % (
                    pid, part.name, rec["msg"], str(rp.get("error"))[:300]))
                status = EXIT_HARNESS
        elif r.inconclusive:
            rep["verdict"] = "inconclusive: %s" % r.inconclusive
            lines.append("HARNESS-ERROR property=%s part=%s inconclusive: %s %s" % (pid, part.name, r.inconclusive, (r.errors or [""])[0][-1500:]))
            status = EXIT_HARNESS
        else:
            # ("a|b": either witness will do - the property allows both behaviours)
            missing = [w for w in part.require if not any(r.coverage.get(x) for x in w.split("|"))]
            if missing:
                rep["verdict"] = "VACUOUS: coverage witnesses missing %s" % missing
                lines.append("HARNESS-ERROR property=%s part=%s coverage witnesses missing: %s" % (pid, part.name, missing))
                status = max(status, EXIT_HARNESS)
            else:
                rep["verdict"] = "held on every path (all checks unsat)"
                if part.real_replay is not None and part.canonical is not None:
                    # validate the environment model: sampled solver-chosen schedules replayed on the real pool / loop
                    ok = bad = 0
                    picks = [s_ for s_ in r.samples if isinstance(s_, dict) and "trace" in s_]
                    rnd = __import__("random").Random(seed)
                    rnd.shuffle(picks)
                    for s_ in picks[: part.validate_n]:
                        want_tr = part.canonical([tuple(e) for e in s_["trace"]])
                        good = False
                        deterministic_disagreement = True
                        for attempt in range(3):
                            try:
                                rr = part.real_replay(s_)
                            except Exception as e:  # noqa: BLE001
                                rr = {"status": "error", "trace": [], "error": repr(e)}
                            if rr.get("status") == "completed" and rr.get("trace") == want_tr:
                                good = True
                                break
                            if rr.get("status") != "completed":
                                deterministic_disagreement = False  # a timeout / divergence of the replay itself (machine load): not a verdict
                        ok += good
                        if not good and deterministic_disagreement:
                            bad += 1
                            rep.setdefault("model_validation_failures", []).append({"sample": s_.get("choices"), "model_trace": want_tr, "real": rr})
                        elif not good:
                            rep.setdefault("model_validation_skipped", []).append({"sample": s_.get("choices"), "real_status": rr.get("status"), "error": str(rr.get("error"))[:200]})
                    rep["traces_validated_on_real_pool"] = ok
                    validated += ok
                    if bad:
                        rep["verdict"] = "environment model disagrees with the real pool on %d sampled schedule(s)" % bad
                        lines.append("HARNESS-ERROR property=%s part=%s environment model and real thread pool disagree on %d sampled schedule(s)" % (pid, part.name, bad))
                        status = max(status, EXIT_HARNESS)
        part_reports.append(rep)
    extra_cov: Dict[str, Any] = {}
    if extra is not None:
        try:
            extra_cov = extra()
            if extra_cov.get("_status"):
                status = max(status, int(extra_cov.pop("_status")))
            for ln in extra_cov.pop("_lines", []):
                lines.append(ln)
        except Exception as e:  # noqa: BLE001
            lines.append("HARNESS-ERROR property=%s extra step failed: %r" % (pid, e))
            status = EXIT_HARNESS
    if violations:
        status = EXIT_VIOLATION
    for kid, k in known_hits.items():
        if kid in known_for:
            print("KNOWN-FINDING: property=%s %s: %s" % (pid, kid, known_for[kid]["what"]))
        else:
            lines.append("HARNESS-ERROR property=%s matcher %s has no entry in known_findings.json" % (pid, kid))
            status = EXIT_HARNESS
    for ln in lines:
        print(ln)
    wall = time.time() - t0
    paths = total.paths
    cov: Dict[str, Any] = {
        "evaluations": paths,
        "distinct_nontrivial": max(states, sum(1 for _ in samples)) if states else paths,
        "rule": rule,
        "samples": samples[:6] or [{"note": "no path completed"}],
        "exhaustive": status == EXIT_OK,
        "states": max(states, 1),
        "transitions": max(transitions, 1),
        "traces_validated_against_impl": validated + int(extra_cov.pop("traces_validated_against_impl", 0)),
        "programs": max(int(extra_cov.pop("programs", 0)) or paths, 1),
        "disagreements_checked": total.checks,
        "paths_explored": paths,
        "paths_aborted_by_assumption": total.aborted,
        "solver_queries": total.solver_calls,
        "solver_seconds": round(total.solver_s, 2),
        "assertions_discharged": total.checks,
        "assertions_discharged_syntactically": total.checks_trivial,
        "solver_unknown": total.unknown,
        "known_finding_hits": total.known_hits,
        "reachability_twins_violated": twins_ok,
        "parts": part_reports,
        "source_sha256_16": source_hashes(),
        "solver": "z3 " + engine.z3.get_version_string(),
    }
    cov.update(extra_cov)
    ev = {
        "property_id": pid, "tier": tier, "seed": seed, "level": level, "coverage": cov,
        "assumptions": assumptions, "wall_s": round(wall, 2), "violations": violations,
    }
    with open(os.path.join(OUT, "evidence", "%s.json" % pid), "w") as f:
        json.dump(engine._jsonable(ev), f, indent=1)
    print("%s %s: %s  paths=%d checks=%d solver_calls=%d solver_s=%.1f wall=%.1fs" % (
        pid, tier, {0: "HOLDS within bounds", 1: "VIOLATION", 2: "INCONCLUSIVE"}[status], paths, total.checks,
        total.solver_calls, total.solver_s, wall))
    return status


def _replay_in_subprocess(pid: str, rec: Dict[str, Any], path: str) -> Dict[str, Any]:
    import subprocess

    with open(path, "w") as f:
        json.dump(engine._jsonable(rec), f, indent=1)
    here = os.path.dirname(os.path.abspath(__file__))
    try:
        p = subprocess.run([sys.executable, "-u", os.path.join(here, "props.py"), pid, "--replay", path], capture_output=True, text=True, timeout=900, cwd=here)
    except subprocess.TimeoutExpired:
        return {"reproduced": False, "violation": None, "error": "replay in a fresh process timed out"}
    ok = "concrete replay: reproduced=True" in p.stdout
    msg = next((l for l in p.stdout.splitlines() if l.startswith("concrete replay:")), p.stdout[-300:] + p.stderr[-300:])
    return {"reproduced": ok, "violation": {"msg": msg} if ok else None, "error": None if ok else msg}


def replay_file(pid: str, parts: List[Part], path: str) -> int:
    """./check <ID> --replay <file>: re-run a stored counterexample (concretely, and on the real pool where applicable)."""
    with open(path) as f:
        rec = json.load(f)
    part = next((p for p in parts if p.name == rec.get("part")), None)
    if part is None:
        print("HARNESS-ERROR property=%s replay: part %r of the record is not part of this check/tier" % (pid, rec.get("part")))
        return EXIT_HARNESS
    rp = engine.replay(part.harness, rec)
    print("concrete replay: reproduced=%s %s" % (rp["reproduced"], (rp.get("violation") or {}).get("msg") or rp.get("error") or ""))
    if part.real_replay is not None:
        real = part.real_replay(rec)
        print("real thread pool / event loop replay: %s %s" % (real.get("status"), real.get("violation") or real.get("error") or ""))
    if rp["reproduced"]:
        print("VIOLATION property=%s replay=%s" % (pid, path))
        return EXIT_VIOLATION
    print("%s: the recorded counterexample does not reproduce on the current tree" % pid)
    return EXIT_OK


# ----------------------------------------------------------------------------------------------
# engine CH: CrossHair kernels as an extra step of a check
# ----------------------------------------------------------------------------------------------
def kernel_extra(pid: str, prefixes: List[str], timeout: int = 40) -> Callable[[], Dict[str, Any]]:
    def run() -> Dict[str, Any]:
        import subprocess

        sys.path.insert(0, os.path.join(ROOT, "kernels"))
        import run as krun  # type: ignore

        res = krun.run(["k_front.py", "k_graph.py"], names=prefixes, timeout=timeout)
        out: Dict[str, Any] = {"crosshair_conditions": len(res), "crosshair_confirmed": sum(r["verdict"] == "confirmed" for r in res),
                               "crosshair_inconclusive": [r["kernel"] for r in res if r["verdict"] == "inconclusive"],
                               "crosshair": [{k: r[k] for k in ("kernel", "verdict", "seconds")} for r in res], "_lines": []}
        for r in res:
            if r["verdict"] != "counterexample":
                continue
            # believe a CrossHair counterexample only after re-executing the call concretely
            call = r["output"].split("when calling", 1)[-1].strip().splitlines()[0] if "when calling" in r["output"] else ""
            code = ("import ast, inspect, sys; sys.path.insert(0, %r); import %s as K\n"
                    "call = ast.parse(%r).body[0].value; fn = getattr(K, call.func.id)\n"
                    "args = [ast.literal_eval(a) for a in call.args]\n"
                    "ba = inspect.signature(fn).bind(*args); env = dict(vars(K)); env.update(ba.arguments)\n"
                    "doc = inspect.getdoc(fn); post = [l.split('post:', 1)[1].strip() for l in doc.splitlines() if l.strip().startswith('post:')]\n"
                    "try:\n    env['_'] = fn(*args); ok = all(eval(p, env) for p in post)\nexcept Exception as e:\n    ok = False; print('raised', repr(e))\n"
                    "print('POST-HOLDS' if ok else 'POST-FAILS')\n") % (os.path.join(ROOT, "kernels"), r["file"][:-3], call)
            try:
                p = subprocess.run([os.path.join(ROOT, ".venv", "bin", "python"), "-c", code], capture_output=True, text=True, timeout=60)
                confirmed = "POST-FAILS" in p.stdout
                detail = (p.stdout + p.stderr)[-300:]
            except Exception as e:  # noqa: BLE001
                confirmed, detail = False, repr(e)
            if confirmed:
                path = os.path.join(OUT, "replays", "%s-kernel-%s-%d.json" % (pid, r["kernel"], int(time.time())))
                with open(path, "w") as f:
                    json.dump({"property": pid, "kernel": r["kernel"], "call": call, "crosshair": r["output"], "concrete": detail}, f, indent=1)
                out["_lines"].append("VIOLATION property=%s replay=%s" % (pid, path))
                out["_lines"].append("  CrossHair kernel %s: %s" % (r["kernel"], call))
                out["_status"] = EXIT_VIOLATION
            else:
                out["crosshair_inconclusive"].append(r["kernel"] + " (counterexample did not reproduce concretely)")
        return out

    return run
