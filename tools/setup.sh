#!/bin/sh
# Builds the overlay venv /verif/.venv (offline): /venv's python + site-packages + /repo on the path,
# plus z3-solver and crosshair-tool from the offline wheelhouse.
set -e
cd "$(dirname "$0")/.."
V=.venv
if [ -x "$V/bin/python" ] && "$V/bin/python" -c "import z3, crosshair, networkx, tawazi" 2>/dev/null; then
    exit 0
fi
rm -rf "$V"
/venv/bin/python -m venv "$V"
SP=$("$V/bin/python" -c "import sysconfig; print(sysconfig.get_paths()['purelib'])")
printf "import site; site.addsitedir('/venv/lib/python3.12/site-packages')\n/repo\n" > "$SP/_verif_overlay.pth"
PIP_NO_INDEX=1 "$V/bin/pip" install -q --no-index --find-links /opt/veriftools/wheels z3-solver crosshair-tool >/dev/null
"$V/bin/python" -c "import z3, crosshair, networkx, tawazi; print('verif venv ok', z3.get_version_string())"
