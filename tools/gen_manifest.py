"""Regenerates MANIFEST.json from the table below (run after changing which properties are claimed)."""
import json
import os

ROOT = os.path.dirname(os.path.dirname(os.path.abspath(__file__)))

TB_SCHED = ("trusted: CPython, z3, networkx; the nondeterministic environment model of sx/env.py (ThreadPoolExecutor.submit, "
            "concurrent.futures.wait, asyncio.ensure_future/wait/run_in_executor, contextvars.Context.run) stands in for the real pool and "
            "event loop; node functions are total and side-effect free; identifiers are concrete; bounded by N nodes per DAG")

TB_REAL = ("trusted: CPython, z3, networkx; the real scheduler runs on the real ThreadPoolExecutor / event loop with main-thread nodes; node functions "
           "are uninterpreted terms; identifiers are concrete; bounded by N nodes per DAG")

CHECKS = {
    "C02": ("model_checking", "3.4", "bounded symbolic execution (z3) of the real scheduler under a nondeterministic pool/event-loop model",
            "Every DAG shape with N<=3 nodes (N=4 thorough), every resource assignment, one activation edge (node result or DAG input), symbolic "
            "max_concurrency / sequential flags / node values, and every completion subset and order: at every node entry z3 proves that all "
            "dependencies were observed finished and that the received arguments equal the dependencies' result terms.", TB_SCHED),
    "C03": ("model_checking", "3.4", "bounded symbolic execution (z3) of the real scheduler + selection closure spec",
            "Same exploration with whole / target / exclude / root selection: each selected active node is entered exactly once, nothing else is entered.", TB_SCHED),
    "C04": ("model_checking", "3.4", "bounded symbolic execution (z3) of the real scheduler, max_concurrency an unbounded symbolic integer",
            "At every pool start z3 proves #started-and-unobserved pooled nodes <= max_concurrency for all values of max_concurrency (set by decorator, attribute or config_from_dict); "
            "pooled nodes only run through submit/run_in_executor, main-thread nodes only inline; both DAG flavours.", TB_SCHED),
    "C05": ("model_checking", "3.4", "bounded symbolic execution (z3) of the real scheduler, sequential flags symbolic",
            "At every node entry z3 proves that no unobserved node is sequential and that a sequential node starts with nothing in flight.", TB_SCHED),
    "C06": ("model_checking", "3.4", "bounded symbolic execution (z3) of the real scheduler, priorities unbounded symbolic integers",
            "At every node entry z3 proves compound(started) >= compound(j) for every ready j, compound priority computed from the property's definition "
            "over symbolic priorities (set by decorator or config_from_dict), also for executions restricted by target/exclude/root nodes.", TB_SCHED),
    "C08": ("model_checking", "3.4", "bounded symbolic execution (z3) of the real scheduler with blocked-instant monitor",
            "At every instant at which the scheduler is blocked z3 proves: in flight = max_concurrency, or nothing ready, or a sequential node runs / is the best candidate. "
            "The mixed thread/async-thread case is the known finding F10.", TB_SCHED),
    "C09": ("model_checking", "3.4", "bounded symbolic execution (z3) of the real scheduler with progress watchdog and fault variables",
            "Every path (all completion orders, <=2 failing nodes, deactivated nodes, all resources) ends in a return or a raise; a line-count watchdog on the scheduler module "
            "detects spinning; a normal return implies every selected active node ran.", TB_SCHED),
    "C14": ("fault_enumeration", "3.4", "bounded symbolic execution (z3) of the real scheduler, fault positions are solver variables",
            "Fault variables fail_i (<=2 true) over all shapes/resources/completion orders, profiling on and off: the call raises TawaziBaseException naming the node and call location with the "
            "fault as __cause__; no descendant of a failed node and no node after the observed failure starts; no other exception escapes.", TB_SCHED),
    "C17": ("model_checking", "3.4", "bounded symbolic execution (z3) of the real scheduler in both flavours",
            "Sync and async flavour explored over the same shapes/resources/schedules: same entered set and same returned terms as the plain-Python reference; "
            "with only async-thread nodes in flight the scheduler waits in the awaitable wait; 2 (thorough: 3) concurrent awaits of one AsyncDAG with solver-chosen resumption order and completions each get the "
            "term for their own arguments (with and without a setup node / prior setup()).", TB_SCHED),
    "C07": ("model_checking", "6 (C07)", "bounded symbolic execution (z3) of the real graph construction with symbolic priorities vs. the documented formula",
            "All DAG shapes with N<=4 (N=5 thorough) x all labelings (iteration-order proxy) with unbounded symbolic priorities: z3 proves table[i] = p_i + sum over distinct descendants after construction, "
            "after config_from_dict (all / one node), and for every node of an executor graph (target/exclude/root selection, debug leaf with RUN_DEBUG_NODES on); with max_concurrency=1 and pairwise distinct "
            "compound priorities the start order is the unique list schedule.", TB_REAL),
    "C12": ("model_checking", "6 (C12)", "bounded symbolic execution of the real selection code vs. an independent closure specification, values as z3 terms",
            "All shapes with N=3 x all (R, X, T) from {absent, [], singletons, pairs, shared tag, unknown alias} x alias form (reference, id, tag, tag clashing with an id): executor graph, executed set and returned "
            "terms equal the documented closure; invalid selections raise ValueError before anything runs.", TB_REAL),
    "C13": ("model_checking", "6 (C13)", "bounded symbolic execution of the real debug-node handling vs. the property's rules",
            "All shapes with N=3 (N=4 thorough) x every debug placement x RUN_DEBUG_NODES on/off x call / executor(target|exclude|root) / setup x one activation edge: invalid placements are rejected at build; "
            "flag off: no debug node entered; flag on: whole call runs each debug node once, pulled-in debug nodes have all inputs; non-debug values equal the reference in both settings.", TB_REAL),
    "C01": ("translation_validation", "6 (C01)", "symbolic translation validation (z3, uninterpreted node functions): generated describing function under @dag vs. the same code as plain Python",
            "Every program within a deviation budget of a base program (holes: function / reuse, argument source and form, keyword passing, unpack_to, operators, and_/or_/not_, activation flags, nested DAG calls, "
            "return shape, defaulted DAG parameter, flavour, configuration by dict/YAML/JSON) is built through the public API and called with symbolic inputs; z3 proves the result equal to the plain-Python "
            "evaluation and the entered functions equal; a second part proves the returned tuple schedule- and configuration-independent on the real scheduler under the environment model.", TB_REAL + "; " + TB_SCHED),
    "C10": ("translation_validation", "6 (C10)", "symbolic translation validation (z3) of programs with activation flags of every form",
            "Flag forms (constants True/False/None/0/3, DAG argument, node result, result[k], unpacked element, operator expression) x target (plain node, reused node, nested DAG, node inside a nested DAG) x position: "
            "result terms and per-function entry counts equal the plain-Python reference `f(..) if flag else None`.", TB_REAL),
    "C20": ("translation_validation", "6 (C20)", "symbolic translation validation (z3) of nested DAG calls vs. plain-Python inlining",
            "Nesting depth <= 3, inner signatures (1..2 required, 0..2 defaulted), supplied argument counts, constants or results as arguments, return shapes single/tuple/list/dict used by index, unpack, pass-on or "
            "returned whole, inner nodes with keyword / indexed arguments and own flags, shared function names in outer and inner DAG: result terms equal inlining; any build failure is a violation.", TB_REAL),
    "C19": ("translation_validation", "6 (C19)", "symbolic translation validation (z3) of compose(): composed DAG vs. the original program with substituted input values",
            "All shapes with N=3 (N=4 thorough) x root sources (required / defaulted DAG argument, constant) x one feature (indexed use, keyword use, activation edge, alias form) x inputs (Ellipsis, [], singletons, pairs, "
            "original argument, shared tag) x outputs: result terms equal the substituted reference, exactly the needed nodes run, setup results are taken from the original, error cases raise ValueError, "
            "the original DAG (results, node table, graph) is unchanged and can be composed again.", TB_REAL),
    "C11": ("model_checking", "6 (C11)", "bounded symbolic exploration of operation histories on the real DAG objects, values as z3 terms",
            "Every history of length <= 2 on N=3 and <= 3 on N=2 (thorough: 3 / 4) over {call, setup(), setup(target), setup([]), executor(), executor(target), deepcopy-then-continue}, every setup placement, sync and async: "
            "each setup node is entered at most once per instance, later results reuse the first value (also when it is None), selections run only the setup nodes they need, deep copies are independent, invalid placements are rejected at build.", TB_REAL),
    "C15": ("model_checking", "6 (C15)", "bounded symbolic exploration of operation histories, results compared with the plain evaluation for fresh symbolic arguments",
            "Every history of length <= 3 (+ a final call; thorough 4) over {call with default omitted / supplied, failing call, executor create / run / failing run, compose + call, config_from_dict} on 3 programs, sync and async: "
            "every call returns the term for its own arguments; an executor refuses a second run after success and refuses or recomputes from scratch after a failure.", TB_REAL),
    "C18": ("model_checking", "6 (C18)", "bounded symbolic exploration of (caching run, restart) pairs with real pickling of symbolic values",
            "All shapes with N=3 x caching selection {whole, target=[i], cache_deps_of=[i]} x restart {same selection, whole} x {same instance, pristine deep copy} x optional setup node, and two rounds on the same file (N=2; N=3 thorough): "
            "file contents are exactly the documented ids, no cached node is executed, returned terms are the cached ones / computed from them, cache_deps_of restart executes that node only.", TB_REAL),
    "C16": ("model_checking", "6 (C16)", "solver-chosen interleavings of real threads (cooperative gates) over the real code, results as z3 terms",
            "Two (thorough: three) real threads call one DAG instance with their own symbolic arguments; every alternation of the threads at node-entry granularity is explored: each gets the term for its own arguments, the instance "
            "is unchanged. A build paused at every statement of its describing function x the other thread's operation {call a DAG, call a decorated function, build a DAG}: outcomes equal the no-build-in-progress outcomes, node "
            "tables equal the sequentially built ones, builds serialise.", TB_REAL + "; threads interleave only at node entries / the chosen pause point (finer interleavings are outside the claim)"),
}

NA_REASON = "not claimed"


def part_names(pid, tier):
    try:
        import subprocess
        import sys

        py = os.path.join(ROOT, ".venv", "bin", "python")
        code = "import sys; sys.path.insert(0, %r); import props; print(', '.join(p.name for p in props.all_parts(%r, %r)))" % (ROOT, pid, tier)
        return subprocess.run([py if os.path.exists(py) else sys.executable, "-c", code], capture_output=True, text=True, timeout=120).stdout.strip()
    except Exception:
        return ""


def main():
    checks = []
    for pid in sorted(CHECKS):
        cat, ref, tech, text, note = CHECKS[pid]
        q, t = part_names(pid, "quick"), part_names(pid, "thorough")
        if q:
            text = text + " Explorations run by the quick tier: " + q + "; the thorough tier adds: " + (", ".join(x for x in t.split(", ") if x not in q.split(", ")) or "nothing") + " (see DESIGN.md 10.5; each also runs a reachability twin)."
        checks.append({
            "property_id": pid,
            "quick_cmd": "./check %s quick" % pid,
            "thorough_cmd": "./check %s thorough" % pid,
            "evidence_file": "evidence/%s.json" % pid,
            "replay_cmd_template": "./check %s --replay {path}" % pid,
            "engine": "SX+CH" if pid in ("C01", "C02", "C03", "C07", "C12", "C15", "C20") else "SX",
            "level_claimed": {"category": cat, "text": text, "design_ref": "DESIGN.md section " + ref + " and 10"},
            "level_note": note,
            "technique": tech,
        })
    props = [json.loads(l)["id"] for l in open(os.path.join(ROOT, "properties.jsonl"))]
    m = {
        "version": 1,
        "setup_cmd": "sh tools/setup.sh",
        "hooks": {
            "guard": "TAWAZI_VERIF",
            "enable": "no hooks in /repo: the checks rebind ThreadPoolExecutor / wait / asyncio in the namespace of tawazi._dag.helpers at run time",
            "baseline_off_cmd": "cd /repo && /venv/bin/python -m pytest -ra -q -p no:cacheprovider --timeout=900",
            "source_commits": [],
            "add_only": True,
        },
        "engines": [
            {"name": "SX", "path": "sx/", "serves_properties": sorted(CHECKS),
             "kind_free_text": "own z3-backed path-exploring symbolic executor running the unmodified tawazi modules in CPython (symbolic ints/bools/uninterpreted values, solver-chosen schedules, faults, programs and histories); counterexamples are replayed concretely and, for scheduler properties, on the real thread pool / event loop"},
            {"name": "CH", "path": "kernels/", "serves_properties": ["C01", "C02", "C03", "C07", "C12", "C15", "C20"],
             "kind_free_text": "CrossHair 0.0.110 (symbolic execution of Python with z3) on PEP-316 kernels over leaf functions: key paths, argument binding, return shapes, write-once maps, id suffixes, compound priority; extra step of the listed checks, counterexamples re-executed concretely"},
        ],
        "checks": checks,
        "not_applicable": [{"property_id": p, "reason": NA_REASON} for p in props if p not in CHECKS],
        "notes": "exit 2 + HARNESS-ERROR = inconclusive (solver unknown, budget exhausted, non-reproducing model, vacuity guard); known findings in known_findings.json",
    }
    json.dump(m, open(os.path.join(ROOT, "MANIFEST.json"), "w"), indent=1)
    print("claimed:", sorted(CHECKS))


if __name__ == "__main__":
    main()
