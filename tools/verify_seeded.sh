#!/bin/sh
# usage: tools/verify_seeded.sh <incoming-dir> <out-file> [name ...]   -- confirms each mutant independently in a scratch worktree
#   of its own (several invocations may run side by side): patch applies on HEAD, test-suite passes with it, demo fails with it
#   and passes without it.  Lines are appended to <out-file>.
IN=$1; OUT=$2; shift 2
WT=$(mktemp -d /tmp/wt_verify.XXXXXX); rmdir $WT
git -C /repo worktree add -q --detach $WT HEAD || exit 1
[ $# -eq 0 ] && set -- $(ls $IN)
for m in "$@"; do
  d=$IN/$m
  [ -f $d/patch.diff ] || continue
  cd $WT && git checkout -q -- . && git clean -fdq
  if ! git apply $d/patch.diff 2>/dev/null; then echo "$m APPLY-FAIL" >> $OUT; continue; fi
  PYTHONPATH=$WT timeout 900 /venv/bin/python -m pytest -q -p no:cacheprovider --timeout=900 -q --deselect tests/test_resource.py::test_main_thread_resource_computation_time > /tmp/verify_$m.log 2>&1; t=$?
  tests=$(tail -3 /tmp/verify_$m.log | grep -o "[0-9]* passed" | head -1)
  failed=$(grep -o "[0-9]* failed" /tmp/verify_$m.log | head -1)
  PYTHONPATH=$WT timeout 300 /venv/bin/python $d/demo.py > /tmp/verify_demo_with_$m.log 2>&1; with=$?
  git checkout -q -- . ; git clean -fdq
  PYTHONPATH=$WT timeout 300 /venv/bin/python $d/demo.py > /tmp/verify_demo_without_$m.log 2>&1; without=$?
  echo "$m tests_rc=$t ($tests $failed) demo_with=$with demo_without=$without" >> $OUT
done
cd /; git -C /repo worktree remove --force $WT
