#!/bin/sh
# usage: tools/try_mutant.sh <patch.diff> <tier> <ID> [ID...]   applies the patch to a scratch worktree of its own (never /repo)
#   and runs the checks on it; logs go to /tmp/try_<tag>_<ID>.log where <tag> is the name of the patch's directory
P=$1; T=$2; shift 2
TAG=$(basename $(dirname $(readlink -f $P)))
WT=$(mktemp -d /tmp/wt_try.XXXXXX); rmdir $WT
MOUT=$(mktemp -d /tmp/try_out.XXXXXX)
git -C /repo worktree prune
git -C /repo worktree add -q --detach $WT HEAD || exit 3
git -C $WT apply "$P" || { echo "patch does not apply"; git -C /repo worktree remove --force $WT; exit 3; }
for id in "$@"; do
  VERIF_STOP_AT_FIRST=1 VERIF_REPO=$WT VERIF_OUT=$MOUT timeout 1500 /verif/check $id $T > /tmp/try_${TAG}_$id.log 2>&1; rc=$?
  echo "== $TAG $id rc=$rc: $(grep -m1 -E 'VIOLATION|HARNESS-ERROR|INCONCLUSIVE' /tmp/try_${TAG}_$id.log | cut -c1-200)"; grep -A1 -m1 VIOLATION /tmp/try_${TAG}_$id.log | tail -1 | cut -c1-300
done
git -C /repo worktree remove --force $WT; rm -rf $MOUT
