#!/bin/sh
# usage: tools/try_mutant.sh <patch.diff> <tier> <ID> [ID...]   applies the patch to /repo, runs the checks, reverts
P=$1; T=$2; shift 2
git -C /repo apply "$P" || { echo "patch does not apply"; exit 3; }
for id in "$@"; do
  timeout 1000 /verif/check $id $T > /tmp/try_$id.log 2>&1; rc=$?
  echo "== $id rc=$rc: $(grep -m1 -E 'VIOLATION|HARNESS-ERROR' /tmp/try_$id.log | cut -c1-300)"; grep -A1 -m1 VIOLATION /tmp/try_$id.log | tail -1 | cut -c1-300
done
git -C /repo checkout -- .
