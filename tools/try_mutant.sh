#!/bin/sh
# usage: tools/try_mutant.sh <patch.diff> <tier> <ID> [ID...]   applies the patch to a scratch worktree (never /repo) and runs the checks on it
P=$1; T=$2; shift 2
WT=/tmp/wt_try
git -C /repo worktree remove --force $WT 2>/dev/null; git -C /repo worktree prune
git -C /repo worktree add -q --detach $WT HEAD || exit 3
git -C $WT apply "$P" || { echo "patch does not apply"; git -C /repo worktree remove --force $WT; exit 3; }
mkdir -p /tmp/try_out
for id in "$@"; do
  VERIF_REPO=$WT VERIF_OUT=/tmp/try_out timeout 1000 /verif/check $id $T > /tmp/try_$id.log 2>&1; rc=$?
  echo "== $id rc=$rc: $(grep -m1 -E 'VIOLATION|HARNESS-ERROR' /tmp/try_$id.log | cut -c1-300)"; grep -A1 -m1 VIOLATION /tmp/try_$id.log | tail -1 | cut -c1-300
done
git -C /repo worktree remove --force $WT
