#!/bin/sh
# usage: tools/run_seeded.sh <tier> [seeded-id ...]
# Applies each seeded change to a scratch worktree of /repo (never to /repo itself), runs the check of its property (and
# the ids listed under "also" in meta.json) against that worktree, and records the outcome in seeded/RESULTS.<tier>.txt.
T=${1:-quick}; shift
cd /verif
OUT=seeded/RESULTS.$T.txt
# (a worktree and an output directory of its own per invocation: two matrix runs must never share a tree)
WT=$(mktemp -d /tmp/wt_matrix.XXXXXX); rmdir $WT
MOUT=$(mktemp -d /tmp/matrix_out.XXXXXX)
git -C /repo worktree prune
git -C /repo worktree add -q --detach $WT HEAD || exit 1
[ $# -eq 0 ] && set -- $(ls seeded | grep -v RESULTS)
for s in "$@"; do
  d=/verif/seeded/$s
  [ -f $d/patch.diff ] || continue
  prop=$(python3 -c "import json;print(json.load(open('$d/meta.json'))['property'])")
  also=$(python3 -c "import json;print(' '.join(json.load(open('$d/meta.json')).get('also',[])))")
  git -C $WT checkout -q -- . 
  if ! git -C $WT apply $d/patch.diff 2>/dev/null; then echo "$s APPLY-FAIL" | tee -a $OUT; continue; fi
  line="$s"
  for id in $prop $also; do
    VERIF_STOP_AT_FIRST=1 VERIF_REPO=$WT VERIF_OUT=$MOUT timeout 1500 ./check $id $T > $MOUT/seeded_$s.$id.log 2>&1; rc=$?
    msg=$(grep -A1 -m1 VIOLATION $MOUT/seeded_$s.$id.log | tail -1 | cut -c1-140)
    line="$line | $id rc=$rc $msg"
  done
  echo "$line" | tee -a $OUT
done
git -C /repo worktree remove --force $WT
rm -rf $MOUT
