#!/bin/sh
# usage: tools/run_seeded.sh <tier> [seeded-id ...]   runs each seeded change against the check of its property (and any extra ids in meta.json "also")
# writes seeded/RESULTS.<tier>.txt ; /repo is restored after every change
T=${1:-quick}; shift
cd /verif
OUT=seeded/RESULTS.$T.txt
[ $# -eq 0 ] && set -- $(ls seeded | grep -v RESULTS)
for s in "$@"; do
  d=/verif/seeded/$s
  [ -f $d/patch.diff ] || continue
  prop=$(python3 -c "import json;print(json.load(open('$d/meta.json'))['property'])")
  also=$(python3 -c "import json;print(' '.join(json.load(open('$d/meta.json')).get('also',[])))")
  if ! git -C /repo apply $d/patch.diff 2>/dev/null; then echo "$s APPLY-FAIL" | tee -a $OUT; continue; fi
  line="$s"
  for id in $prop $also; do
    timeout 1500 ./check $id $T > /tmp/seeded_$s.$id.log 2>&1; rc=$?
    msg=$(grep -A1 -m1 VIOLATION /tmp/seeded_$s.$id.log | tail -1 | cut -c1-140)
    line="$line | $id rc=$rc $msg"
  done
  git -C /repo checkout -- .
  echo "$line" | tee -a $OUT
done
