"""Prints the explorations (parts) behind every check, per tier - the source of DESIGN.md section 10.5."""
import os
import sys

sys.path.insert(0, os.path.dirname(os.path.dirname(os.path.abspath(__file__))))
import props  # noqa: E402

for pid in ["C%02d" % i for i in range(1, 21)]:
    q = [p.name for p in props.all_parts(pid, "quick")]
    t = [p.name for p in props.all_parts(pid, "thorough")]
    extra = [n for n in t if n not in q]
    k = props.KERNELS.get(pid)
    print("| %s | %s | %s | %s |" % (pid, ", ".join(q), ", ".join(extra) or "-", ", ".join(k) if k else "-"))
